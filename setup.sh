#!/bin/bash
# offline setup: nothing to download; pre-build the Kani harness crate once so the first check is fast.
cd "$(dirname "$(readlink -f "$0")")"
export CARGO_NET_OFFLINE=true
python3-vt -c "from vf import gen; gen.generate_all()" || exit 1
exit 0
