//! WIP feasibility experiment (not part of the evidence): the repo's REAL `winter_verifier::verify()` executed by Kani on ONE
//! concrete honest toy STARK proof, produced natively by the repo's real prover (/verif/wip-stark/native) at the harness
//! instantiation (F_257 with quadratic extension, PairHash128, CtrCoin). AIR: 1 column, 8 steps, next = 3 * current,
//! assertions col0[0] = 1 and col0[7] = public input.
use air::proof::Proof;
use air::{Air, AirContext, Assertion, EvaluationFrame, ProofOptions, TraceInfo, TransitionConstraintDegree};
use math::FieldElement;
use verifier::{verify, AcceptableOptions};

use crate::coins::CtrCoin;
use crate::hashers::PairHash128 as PH;
use crate::toy::T;
use crate::util::nofmt;

pub struct MulAir { ctx: AirContext<T>, last: T }
impl Air for MulAir {
    type BaseField = T;
    type PublicInputs = T;
    type GkrProof = ();
    type GkrVerifier = ();
    fn new(trace_info: TraceInfo, pi: T, options: ProofOptions) -> Self {
        MulAir { ctx: AirContext::new(trace_info, vec![TransitionConstraintDegree::new(1)], 2, options), last: pi }
    }
    fn context(&self) -> &AirContext<T> { &self.ctx }
    fn evaluate_transition<E: FieldElement<BaseField = T>>(&self, frame: &EvaluationFrame<E>, _p: &[E], result: &mut [E]) {
        result[0] = frame.next()[0] - frame.current()[0] * E::from(T(3));
    }
    fn get_assertions(&self) -> Vec<Assertion<T>> {
        let n = self.trace_length();
        vec![Assertion::single(0, 0, T::ONE), Assertion::single(0, n - 1, self.last)]
    }
}

pub mod data {
    // queries 1 (unique 1) blowup 2 trace_len 8 extension degree 2 folding 2 remainder_max_degree 1 grinding 0
    // trace column: [1, 3, 9, 27, 81, 243, 215, 131]
    // natively: honest Ok(()); byte 204 flipped: Err(constraint query did not match the commitment); wrong public input: Err(constraint evaluations over the out-of-domain frame are inconsistent)
    pub const HONEST_ACCEPTED_NATIVELY: bool = true;
    pub const PUB_INPUT: u16 = 131;
    pub const HONEST_NONCE: u64 = 1;
    pub const PROOF: [u8; 409] = [1, 0, 0, 3, 0, 0, 2, 1, 1, 1, 2, 0, 2, 2, 1, 1, 80, 0, 129, 255, 207, 131, 108, 157, 31, 107, 223, 253, 121, 126, 189, 254, 99, 19, 201, 112, 107, 2, 32, 66, 0, 215, 78, 0, 241, 223, 68, 199, 222, 50, 169, 104, 9, 64, 3, 0, 255, 18, 184, 9, 96, 215, 23, 208, 110, 178, 209, 18, 128, 60, 0, 74, 5, 176, 13, 64, 177, 37, 0, 221, 0, 82, 0, 228, 0, 184, 22, 0, 0, 0, 0, 0, 0, 0, 0, 0, 0, 74, 2, 0, 0, 0, 67, 0, 66, 0, 0, 0, 1, 4, 38, 2, 0, 0, 0, 0, 0, 0, 0, 0, 0, 0, 0, 0, 0, 20, 10, 50, 101, 4, 0, 0, 0, 0, 0, 0, 0, 0, 0, 0, 0, 54, 27, 197, 151, 139, 42, 162, 236, 20, 0, 0, 0, 0, 0, 0, 0, 122, 189, 141, 2, 64, 42, 21, 210, 170, 187, 81, 28, 74, 172, 194, 194, 2, 4, 0, 0, 0, 235, 0, 0, 0, 66, 0, 0, 0, 1, 4, 0, 142, 5, 0, 0, 0, 0, 0, 0, 0, 0, 0, 0, 0, 0, 38, 19, 0, 33, 2, 0, 20, 0, 0, 0, 0, 0, 0, 0, 0, 0, 90, 173, 9, 0, 87, 1, 52, 57, 1, 80, 42, 0, 93, 1, 0, 0, 194, 225, 214, 4, 64, 132, 0, 174, 157, 0, 32, 22, 128, 142, 173, 9, 146, 9, 0, 2, 68, 0, 0, 0, 6, 0, 0, 0, 1, 0, 0, 4, 0, 119, 0, 0, 0, 2, 8, 0, 0, 0, 238, 0, 0, 0, 213, 0, 0, 0, 50, 0, 0, 0, 1, 3, 0, 48, 1, 72, 22, 0, 0, 0, 0, 0, 0, 0, 0, 0, 0, 74, 37, 0, 13, 0, 248, 10, 224, 6, 128, 29, 1, 0, 0, 0, 0, 162, 209, 18, 128, 9, 0, 82, 5, 208, 14, 64, 189, 37, 0, 113, 0, 82, 8, 0, 0, 0, 219, 0, 0, 0, 221, 0, 0, 0, 34, 0, 0, 0, 1, 2, 0, 196, 0, 160, 22, 0, 0, 0, 0, 0, 0, 0, 0, 0, 0, 74, 37, 0, 121, 0, 148, 10, 96, 27, 128, 98, 1, 0, 0, 0, 0, 162, 8, 0, 215, 0, 0, 0, 114, 0, 0, 0, 0, 1, 0, 0, 0, 0, 0, 0, 0, 0];
}

pub mod data_q2 {
    // queries 2 (unique 2) blowup 2 trace_len 8 extension degree 2 folding 2 remainder_max_degree 1 grinding 0
    // trace column: [1, 3, 9, 27, 81, 243, 215, 131]
    // natively: honest Ok(()); byte 253 flipped: Ok; wrong public input: Err(constraint evaluations over the out-of-domain frame are inconsistent)
    pub const HONEST_ACCEPTED_NATIVELY: bool = true;
    pub const PUB_INPUT: u16 = 131;
    pub const HONEST_NONCE: u64 = 1;
    pub const PROOF: [u8; 506] = [1, 0, 0, 3, 0, 0, 2, 1, 1, 2, 2, 0, 2, 2, 1, 2, 80, 0, 129, 255, 207, 131, 108, 157, 31, 107, 223, 253, 121, 126, 189, 254, 99, 19, 201, 112, 107, 2, 32, 66, 0, 215, 78, 0, 241, 223, 68, 199, 222, 50, 169, 104, 9, 64, 3, 0, 255, 18, 184, 9, 96, 215, 23, 208, 110, 178, 209, 18, 128, 60, 0, 74, 5, 176, 13, 64, 177, 37, 0, 221, 0, 82, 0, 228, 0, 184, 22, 0, 0, 0, 0, 0, 0, 0, 0, 0, 0, 74, 4, 0, 0, 0, 67, 0, 22, 0, 99, 0, 0, 0, 2, 3, 38, 2, 0, 0, 0, 0, 0, 0, 0, 0, 0, 0, 0, 0, 0, 20, 10, 50, 101, 4, 0, 0, 0, 0, 0, 0, 0, 0, 0, 0, 0, 54, 27, 197, 151, 139, 42, 162, 236, 20, 0, 0, 0, 0, 0, 0, 0, 122, 3, 69, 2, 0, 0, 0, 0, 0, 0, 0, 0, 0, 0, 0, 0, 0, 20, 138, 67, 137, 5, 0, 0, 0, 0, 0, 0, 0, 0, 0, 0, 0, 54, 27, 5, 128, 84, 42, 164, 85, 23, 0, 0, 0, 0, 0, 0, 0, 122, 8, 0, 0, 0, 235, 0, 0, 0, 151, 0, 0, 0, 99, 0, 0, 0, 2, 3, 0, 142, 5, 0, 0, 0, 0, 0, 0, 0, 0, 0, 0, 0, 0, 38, 19, 0, 33, 2, 0, 20, 0, 0, 0, 0, 0, 0, 0, 0, 0, 90, 173, 9, 0, 87, 1, 52, 57, 1, 80, 42, 0, 93, 1, 0, 0, 194, 3, 0, 68, 4, 0, 0, 0, 0, 0, 0, 0, 0, 0, 0, 0, 0, 38, 19, 0, 45, 2, 184, 19, 0, 0, 0, 0, 0, 0, 0, 0, 0, 90, 173, 9, 128, 8, 1, 92, 59, 1, 64, 44, 0, 29, 1, 0, 0, 194, 9, 0, 2, 68, 0, 0, 0, 6, 0, 0, 0, 1, 0, 0, 4, 0, 119, 0, 0, 0, 2, 16, 0, 0, 0, 238, 0, 0, 0, 213, 0, 0, 0, 228, 0, 0, 0, 113, 0, 0, 0, 67, 0, 0, 0, 2, 2, 0, 236, 1, 168, 23, 0, 0, 0, 0, 0, 0, 0, 0, 0, 0, 74, 37, 0, 19, 0, 164, 10, 160, 29, 128, 122, 1, 0, 0, 0, 0, 162, 2, 0, 48, 1, 72, 22, 0, 0, 0, 0, 0, 0, 0, 0, 0, 0, 74, 37, 0, 13, 0, 248, 10, 224, 6, 128, 29, 1, 0, 0, 0, 0, 162, 8, 0, 0, 0, 219, 0, 0, 0, 221, 0, 0, 0, 34, 0, 0, 0, 1, 2, 0, 196, 0, 160, 22, 0, 0, 0, 0, 0, 0, 0, 0, 0, 0, 74, 37, 0, 121, 0, 148, 10, 96, 27, 128, 98, 1, 0, 0, 0, 0, 162, 8, 0, 215, 0, 0, 0, 114, 0, 0, 0, 0, 1, 0, 0, 0, 0, 0, 0, 0, 0];
}


#[kani::proof]
#[kani::unwind(40)]
#[kani::stub(alloc::fmt::format, nofmt)]
fn wip_stark_honest_accepted() {
    use data::*;
    assert!(HONEST_ACCEPTED_NATIVELY);
    let proof = Proof::from_bytes(&PROOF).unwrap();
    let r = verify::<MulAir, PH, CtrCoin>(proof, T(PUB_INPUT), &AcceptableOptions::MinConjecturedSecurity(0));
    let ok = r.is_ok();
    core::mem::forget(r);
    assert!(ok);
    kani::cover!(ok);
}

#[kani::proof]
#[kani::unwind(40)]
#[kani::stub(alloc::fmt::format, nofmt)]
fn wip_stark_q2_honest_accepted() {
    use data_q2::*;
    assert!(HONEST_ACCEPTED_NATIVELY);
    let proof = Proof::from_bytes(&PROOF).unwrap();
    let r = verify::<MulAir, PH, CtrCoin>(proof, T(PUB_INPUT), &AcceptableOptions::MinConjecturedSecurity(0));
    let ok = r.is_ok();
    core::mem::forget(r);
    assert!(ok);
    kani::cover!(ok);
}

#[kani::proof]
#[kani::unwind(40)]
#[kani::stub(alloc::fmt::format, nofmt)]
fn wip_stark_nonce_bound() {
    use data::*;
    let mut proof = Proof::from_bytes(&PROOF).unwrap();
    let nonce: u64 = kani::any();
    proof.pow_nonce = nonce;
    let r = verify::<MulAir, PH, CtrCoin>(proof, T(PUB_INPUT), &AcceptableOptions::MinConjecturedSecurity(0));
    let ok = r.is_ok();
    core::mem::forget(r);
    if ok { assert!(nonce == HONEST_NONCE); }
    kani::cover!(ok);
    kani::cover!(!ok);
}

// ---- diagnostics: do constants propagate into the AirContext? ----
#[kani::proof]
#[kani::unwind(40)]
#[kani::stub(alloc::fmt::format, nofmt)]
fn diag_air_literal() {
    let air = MulAir::new(TraceInfo::new(1, 8), T(131), ProofOptions::new(1, 2, 0, air::FieldExtension::Quadratic, 2, 1));
    assert!(air.context().num_constraint_composition_columns() == 1);
}
#[kani::proof]
#[kani::unwind(40)]
#[kani::stub(alloc::fmt::format, nofmt)]
fn diag_air_parsed() {
    let proof = Proof::from_bytes(&data::PROOF).unwrap();
    let air = MulAir::new(proof.trace_info().clone(), T(131), proof.options().clone());
    assert!(air.context().num_constraint_composition_columns() == 1);
    core::mem::forget(proof);
}

// ---- variant: AirContext::num_constraint_composition_columns (iterates over two EMPTY Vecs through slice iterators; CBMC does not
// constant-fold that) replaced by its value for this AIR (1, checked natively). NOT a run of the unmodified verifier. ----
fn stub_ncc<B: math::StarkField>(_c: &AirContext<B>) -> usize { 1 }

#[kani::proof]
#[kani::unwind(40)]
#[kani::stub(alloc::fmt::format, nofmt)]
#[kani::stub(AirContext::num_constraint_composition_columns, stub_ncc)]
fn wip_stark_honest_accepted_ncc_stubbed() {
    use data::*;
    let proof = Proof::from_bytes(&PROOF).unwrap();
    let r = verify::<MulAir, PH, CtrCoin>(proof, T(PUB_INPUT), &AcceptableOptions::MinConjecturedSecurity(0));
    let ok = r.is_ok();
    core::mem::forget(r);
    assert!(ok);
    kani::cover!(ok);
}
