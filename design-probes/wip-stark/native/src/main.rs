//! wip-stark-native: feasibility experiment. Produces ONE honest toy STARK proof with the repo's real prover at the harness
//! library's toy instantiation (F_257, PairHash128, CtrCoin), verifies it natively with the repo's real verifier and prints
//! the bytes as Rust constants.
//!   wip-stark-native <queries> <blowup> <trace_len> <ext: 1|2|3> <folding> <remdeg>
#[path = "../../../kani/src/toy.rs"]
pub mod toy;
#[path = "../../../kani/src/hashers.rs"]
pub mod hashers;
#[path = "../../../kani/src/coins.rs"]
pub mod coins;

use air::{
    Air, AirContext, Assertion, AuxRandElements, ConstraintCompositionCoefficients, EvaluationFrame, FieldExtension,
    ProofOptions, TraceInfo, TransitionConstraintDegree,
};
use coins::CtrCoin;
use hashers::PairHash128 as PH;
use math::FieldElement;
use prover::{
    matrix::ColMatrix, DefaultConstraintEvaluator, DefaultTraceLde, Proof, Prover, StarkDomain, Trace, TracePolyTable,
    TraceTable,
};
use toy::T;
use verifier::{verify, AcceptableOptions};

// ---------------------------------------------------------------------------------------------------------------------
// toy AIR: 1 column, next = 3 * current; column 0 is 1 at step 0 and 3^(n-1) at the last step
pub struct MulAir { ctx: AirContext<T>, last: T }
impl Air for MulAir {
    type BaseField = T;
    type PublicInputs = T;
    type GkrProof = ();
    type GkrVerifier = ();
    fn new(trace_info: TraceInfo, pi: T, options: ProofOptions) -> Self {
        MulAir { ctx: AirContext::new(trace_info, vec![TransitionConstraintDegree::new(1)], 2, options), last: pi }
    }
    fn context(&self) -> &AirContext<T> { &self.ctx }
    fn evaluate_transition<E: FieldElement<BaseField = T>>(&self, frame: &EvaluationFrame<E>, _p: &[E], result: &mut [E]) {
        result[0] = frame.next()[0] - frame.current()[0] * E::from(T(3));
    }
    fn get_assertions(&self) -> Vec<Assertion<T>> {
        let n = self.trace_length();
        vec![Assertion::single(0, 0, T::ONE), Assertion::single(0, n - 1, self.last)]
    }
}

struct MulProver { options: ProofOptions }
impl Prover for MulProver {
    type BaseField = T;
    type Air = MulAir;
    type Trace = TraceTable<T>;
    type HashFn = PH;
    type RandomCoin = CtrCoin;
    type TraceLde<E: FieldElement<BaseField = T>> = DefaultTraceLde<E, PH>;
    type ConstraintEvaluator<'a, E: FieldElement<BaseField = T>> = DefaultConstraintEvaluator<'a, MulAir, E>;

    fn get_pub_inputs(&self, trace: &Self::Trace) -> T { trace.get(0, trace.length() - 1) }
    fn options(&self) -> &ProofOptions { &self.options }
    fn new_trace_lde<E: FieldElement<BaseField = T>>(
        &self, trace_info: &TraceInfo, main_trace: &ColMatrix<T>, domain: &StarkDomain<T>,
    ) -> (Self::TraceLde<E>, TracePolyTable<E>) {
        DefaultTraceLde::new(trace_info, main_trace, domain)
    }
    fn new_evaluator<'a, E: FieldElement<BaseField = T>>(
        &self, air: &'a MulAir, aux: Option<AuxRandElements<E>>, cc: ConstraintCompositionCoefficients<E>,
    ) -> Self::ConstraintEvaluator<'a, E> {
        DefaultConstraintEvaluator::new(air, aux, cc)
    }
}

fn main() {
    let a: Vec<String> = std::env::args().skip(1).collect();
    let g = |i: usize, d: usize| -> usize { a.get(i).map(|s| s.parse().unwrap()).unwrap_or(d) };
    let (queries, blowup, n, ext, folding, remdeg) = (g(0, 2), g(1, 2), g(2, 8), g(3, 2), g(4, 2), g(5, 1));
    let fe = match ext { 1 => FieldExtension::None, 2 => FieldExtension::Quadratic, _ => FieldExtension::Cubic };
    let options = ProofOptions::new(queries, blowup, 0, fe, folding, remdeg);

    let mut trace = TraceTable::<T>::new(1, n);
    trace.fill(|s| s[0] = T::ONE, |_, s| s[0] = s[0] * T(3));
    let col: Vec<u16> = trace.get_column(0).iter().map(|x| x.0).collect();
    let last = trace.get(0, n - 1);

    let prover = MulProver { options };
    let proof = prover.prove(trace).expect("prover failed");
    let bytes = proof.to_bytes();
    let nonce = proof.pow_nonce;
    let nq = proof.num_unique_queries;

    let run = |b: &[u8], pi: T| -> Result<(), String> {
        let p = Proof::from_bytes(b).map_err(|e| format!("parse: {e}"))?;
        verify::<MulAir, PH, CtrCoin>(p, pi, &AcceptableOptions::MinConjecturedSecurity(0)).map_err(|e| format!("{e}"))
    };
    // a panic inside the verifier on a corrupted proof counts as "not accepted" here, but is reported
    let run_c = |b: &[u8], pi: T| -> String {
        let b = b.to_vec();
        match std::panic::catch_unwind(move || {
            let p = match Proof::from_bytes(&b) { Ok(p) => p, Err(e) => return format!("Err(parse: {e})") };
            match verify::<MulAir, PH, CtrCoin>(p, pi, &AcceptableOptions::MinConjecturedSecurity(0)) { Ok(()) => "Ok".into(), Err(e) => format!("Err({e})") }
        }) { Ok(s) => s, Err(_) => "PANIC".into() }
    };
    let honest = run(&bytes, last);
    eprintln!("honest: {:?}", honest);
    std::panic::set_hook(Box::new(|_| {}));
    let mid = bytes.len() / 2;
    let mut flipped = bytes.clone();
    flipped[mid] ^= 1;
    let fl = run_c(&flipped, last);
    eprintln!("flipped byte {mid}: {fl}");
    let wrong_pi = run_c(&bytes, last + T::ONE);
    eprintln!("wrong public input: {wrong_pi}");
    // every single-bit flip of every byte: how many are still accepted?
    let (mut acc, mut pan) = (Vec::new(), 0usize);
    for i in 0..bytes.len() { for bit in 0..8 {
        let mut f = bytes.clone(); f[i] ^= 1 << bit;
        let r = run_c(&f, last);
        if r == "Ok" { acc.push((i, bit)); } else if r == "PANIC" { pan += 1; }
    } }
    eprintln!("single-bit flips accepted: {} of {} (panics: {pan}): {:?}", acc.len(), bytes.len() * 8, acc);
    // other nonces
    let mut other_nonce_ok = 0;
    for k in 1..=64u64 { let mut p = Proof::from_bytes(&bytes).unwrap(); p.pow_nonce = k;
        if std::panic::catch_unwind(move || verify::<MulAir, PH, CtrCoin>(p, last, &AcceptableOptions::MinConjecturedSecurity(0)).is_ok()).unwrap_or(false) { other_nonce_ok += 1; } }
    eprintln!("nonces 1..=64 accepted instead of the honest one ({nonce}): {other_nonce_ok}");

    println!("pub mod data {{");
    println!("    // queries {queries} (unique {nq}) blowup {blowup} trace_len {n} extension degree {ext} folding {folding} remainder_max_degree {remdeg} grinding 0");
    println!("    // trace column: {:?}", col);
    println!("    // natively: honest {:?}; byte {mid} flipped: {fl}; wrong public input: {wrong_pi}", honest);
    println!("    pub const HONEST_ACCEPTED_NATIVELY: bool = {};", honest.is_ok());
    println!("    pub const PUB_INPUT: u16 = {};", last.0);
    println!("    pub const HONEST_NONCE: u64 = {nonce};");
    println!("    pub const PROOF: [u8; {}] = {:?};", bytes.len(), bytes);
    println!("}}");
}
