use probe3::toy::T;
use probe3::ph1w::{PD, PairHash};
use crypto::DefaultRandomCoin;
use fri::{DefaultProverChannel, FriOptions, FriProver};
use math::{fft, FieldElement, StarkField, get_power_series_with_offset, polynom};
use utils::Serializable;

fn main() {
    let options = FriOptions::new(2, 2, 1);
    let n = 8usize;
    let poly = [T(5), T(100), T(7), T(201)];
    let g = T::get_root_of_unity(3);
    let domain = get_power_series_with_offset(g, T::GENERATOR, n);
    let evals = polynom::eval_many(&poly, &domain);
    let mut channel = DefaultProverChannel::<T, PairHash, DefaultRandomCoin<PairHash>>::new(n, 1);
    let mut prover = FriProver::new(options.clone());
    prover.build_layers(&mut channel, evals.clone());
    let positions = channel.draw_query_positions(0);
    let proof = prover.build_proof(&positions);
    let bytes = proof.to_bytes();
    println!("// layers={} remainder_elems={}", proof.num_layers(), proof.num_remainder_elements::<T>());
    println!("pub const PROOF: [u8; {}] = {:?};", bytes.len(), bytes);
    let c: Vec<u128> = channel.layer_commitments().iter().map(|d| d.0).collect();
    println!("pub const COMMITS: [u128; {}] = {:?};", c.len(), c);
    println!("pub const POSITIONS: [usize; {}] = {:?};", positions.len(), positions);
    let q: Vec<u16> = positions.iter().map(|&p| evals[p].0).collect();
    println!("pub const QUERIED: [u16; {}] = {:?};", q.len(), q);
}
