pub mod toy;
pub mod ph1w;
#[cfg(kani)]
mod h {
    use crate::toy::{T, P};
    use crate::ph1w::{PD, PairHash};
    use crypto::{DefaultRandomCoin, RandomCoin};
    use fri::{DefaultVerifierChannel, FriOptions, FriProof, FriVerifier};
    use utils::{Deserializable, SliceReader};

    fn nofmt(_a: core::fmt::Arguments<'_>) -> String { String::new() }

    pub const PROOF: [u8; 54] = [1, 4, 0, 0, 0, 70, 0, 237, 0, 34, 0, 0, 0, 1, 2, 252, 26, 5, 0, 0, 0, 0, 0, 0, 0, 0, 0, 0, 0, 0, 38, 19, 103, 21, 90, 194, 23, 0, 0, 0, 0, 0, 0, 0, 0, 0, 90, 4, 0, 105, 0, 110, 0, 0];
    pub const COMMITS: [u128; 2] = [257870231283396869289434381151523539373, 50510663839826803170344668290653409902];
    pub const POSITIONS: [usize; 1] = [1];
    pub const QUERIED: [u16; 1] = [70];

    fn run(bytes: &[u8]) -> bool {
        let mut r = SliceReader::new(bytes);
        let proof = match FriProof::read_from(&mut r) { Ok(p) => p, Err(_) => return false };
        let commits = vec![PD(COMMITS[0]), PD(COMMITS[1])];
        let mut channel = match DefaultVerifierChannel::<T, PairHash>::new(proof, commits, 8, 2) { Ok(c) => c, Err(_) => return false };
        let mut coin = DefaultRandomCoin::<PairHash>::new(&[]);
        let options = FriOptions::new(2, 2, 1);
        let verifier = match FriVerifier::new(&mut channel, &mut coin, options, 3) { Ok(v) => v, Err(_) => return false };
        let ok = verifier.verify(&mut channel, &[T(QUERIED[0])], &POSITIONS).is_ok();
        core::mem::forget(verifier); core::mem::forget(channel);
        ok
    }
    #[kani::proof]
    #[kani::unwind(12)]
    #[kani::stub(alloc::fmt::format, nofmt)]
    fn fri_honest() { assert!(run(&PROOF)); }

    // a channel that behaves like the default one but hands out a caller-chosen remainder
    struct RemCh { inner: DefaultVerifierChannel<T, PairHash>, rem: Vec<T> }
    impl fri::VerifierChannel<T> for RemCh {
        type Hasher = PairHash;
        fn read_fri_num_partitions(&self) -> usize { self.inner.read_fri_num_partitions() }
        fn read_fri_layer_commitments(&mut self) -> Vec<PD> { self.inner.read_fri_layer_commitments() }
        fn take_next_fri_layer_proof(&mut self) -> crypto::BatchMerkleProof<PairHash> { self.inner.take_next_fri_layer_proof() }
        fn take_next_fri_layer_queries(&mut self) -> Vec<T> { self.inner.take_next_fri_layer_queries() }
        fn take_fri_remainder(&mut self) -> Vec<T> { self.rem.clone() }
    }
    #[kani::proof]
    #[kani::unwind(12)]
    #[kani::stub(alloc::fmt::format, nofmt)]
    fn fri_remainder_bound2() {
        let mut r = SliceReader::new(&PROOF);
        let proof = FriProof::read_from(&mut r).unwrap();
        let commits = vec![PD(COMMITS[0]), PD(COMMITS[1])];
        let inner = DefaultVerifierChannel::<T, PairHash>::new(proof, commits, 8, 2).unwrap();
        let r0: u16 = kani::any(); let r1: u16 = kani::any();
        kani::assume((r0 as u32) < P && (r1 as u32) < P);
        let mut channel = RemCh { inner, rem: vec![T(r0), T(r1)] };
        let mut coin = DefaultRandomCoin::<PairHash>::new(&[]);
        let options = FriOptions::new(2, 2, 1);
        let verifier = FriVerifier::new(&mut channel, &mut coin, options, 3).unwrap();
        let ok = verifier.verify(&mut channel, &[T(QUERIED[0])], &POSITIONS).is_ok();
        if ok { assert!(r0 == 105 && r1 == 110); }
        core::mem::forget(verifier); core::mem::forget(channel);
    }
    #[kani::proof]
    #[kani::unwind(12)]
    #[kani::stub(alloc::fmt::format, nofmt)]
    fn fri_remainder_bound() {
        let mut b = PROOF;
        let r0: u16 = kani::any(); let r1: u16 = kani::any();
        kani::assume((r0 as u32) < P && (r1 as u32) < P);
        b[49] = r0 as u8; b[50] = (r0 >> 8) as u8; b[51] = r1 as u8; b[52] = (r1 >> 8) as u8;
        if run(&b) { assert!(r0 == 105 && r1 == 110); }
    }
}
