//! Sorted-Vec ordered map/set with the subset of the BTreeMap/BTreeSet API used by this module.
use alloc::vec::Vec;

#[derive(Debug, Clone, Default)]
pub struct BTreeMap<K, V> { items: Vec<(K, V)> }

impl<K: Ord + Copy, V> BTreeMap<K, V> {
    pub fn new() -> Self { Self { items: Vec::new() } }
    fn find(&self, k: &K) -> Result<usize, usize> {
        let mut i = 0;
        while i < self.items.len() {
            if self.items[i].0 == *k { return Ok(i); }
            if self.items[i].0 > *k { return Err(i); }
            i += 1;
        }
        Err(i)
    }
    pub fn insert(&mut self, k: K, v: V) -> Option<V> {
        match self.find(&k) {
            Ok(i) => Some(core::mem::replace(&mut self.items[i].1, v)),
            Err(i) => { self.items.insert(i, (k, v)); None },
        }
    }
    pub fn get(&self, k: &K) -> Option<&V> { match self.find(k) { Ok(i) => Some(&self.items[i].1), Err(_) => None } }
    pub fn remove(&mut self, k: &K) -> Option<V> { match self.find(k) { Ok(i) => Some(self.items.remove(i).1), Err(_) => None } }
    pub fn len(&self) -> usize { self.items.len() }
    pub fn clear(&mut self) { self.items.clear() }
    pub fn keys(&self) -> impl Iterator<Item = &K> { self.items.iter().map(|e| &e.0) }
    pub fn values(&self) -> impl Iterator<Item = &V> { self.items.iter().map(|e| &e.1) }
}

#[derive(Debug, Clone, Default)]
pub struct BTreeSet<K> { items: Vec<K> }
impl<K: Ord + Copy> BTreeSet<K> {
    pub fn new() -> Self { Self { items: Vec::new() } }
    pub fn insert(&mut self, k: K) -> bool {
        let mut i = 0;
        while i < self.items.len() {
            if self.items[i] == k { return false; }
            if self.items[i] > k { break; }
            i += 1;
        }
        self.items.insert(i, k);
        true
    }
}
impl<K> IntoIterator for BTreeSet<K> { type Item = K; type IntoIter = alloc::vec::IntoIter<K>; fn into_iter(self) -> Self::IntoIter { self.items.into_iter() } }
