# hand transliteration of mds_multiply_freq into z3 Int terms (what Engine M would emit), to measure solver cost
import z3, time
s=[z3.Int(f's{i}') for i in range(12)]
def fft2(x): return [x[0]+x[1], x[0]-x[1]]
def fft4(x):
    z0,z2=fft2([x[0],x[2]]); z1,z3=fft2([x[1],x[3]])
    return (z0+z1,(z2,-z3),z0-z1)
def ifft2(y): return [y[0]+y[1], y[0]-y[1]]
def ifft4(y):
    z0=y[0]+y[2]; z1=y[0]-y[2]; z2=y[1][0]; z3=-y[1][1]
    x0,x2=ifft2([z0,z2]); x1,x3=ifft2([z1,z3]); return [x0,x1,x2,x3]
B1=[16,8,16]; B2=[(-1,2),(-1,1),(4,8)]; B3=[-8,1,1]
def block1(x,y):
    x0,x1,x2=x;y0,y1,y2=y
    return [x0*y0+x1*y2+x2*y1, x0*y1+x1*y0+x2*y2, x0*y2+x1*y1+x2*y0]
def block2(x,y):
    (x0r,x0i),(x1r,x1i),(x2r,x2i)=x;(y0r,y0i),(y1r,y1i),(y2r,y2i)=y
    x0s=x0r+x0i;x1s=x1r+x1i;x2s=x2r+x2i;y0s=y0r+y0i;y1s=y1r+y1i;y2s=y2r+y2i
    m0=(x0r*y0r,x0i*y0i);m1=(x1r*y2r,x1i*y2i);m2=(x2r*y1r,x2i*y1i)
    z0r=(m0[0]-m0[1])+(x1s*y2s-m1[0]-m1[1])+(x2s*y1s-m2[0]-m2[1])
    z0i=(x0s*y0s-m0[0]-m0[1])+(-m1[0]+m1[1])+(-m2[0]+m2[1])
    z0=(z0r,z0i)
    m0=(x0r*y1r,x0i*y1i);m1=(x1r*y0r,x1i*y0i);m2=(x2r*y2r,x2i*y2i)
    z1r=(m0[0]-m0[1])+(m1[0]-m1[1])+(x2s*y2s-m2[0]-m2[1])
    z1i=(x0s*y1s-m0[0]-m0[1])+(x1s*y0s-m1[0]-m1[1])+(-m2[0]+m2[1])
    z1=(z1r,z1i)
    m0=(x0r*y2r,x0i*y2i);m1=(x1r*y1r,x1i*y1i);m2=(x2r*y0r,x2i*y0i)
    z2r=(m0[0]-m0[1])+(m1[0]-m1[1])+(m2[0]-m2[1])
    z2i=(x0s*y2s-m0[0]-m0[1])+(x1s*y1s-m1[0]-m1[1])+(x2s*y0s-m2[0]-m2[1])
    return [z0,z1,(z2r,z2i)]
def block3(x,y):
    x0,x1,x2=x;y0,y1,y2=y
    return [x0*y0-x1*y2-x2*y1, x0*y1+x1*y0-x2*y2, x0*y2+x1*y1+x2*y0]
u0,u1,u2=fft4([s[0],s[3],s[6],s[9]]);u4,u5,u6=fft4([s[1],s[4],s[7],s[10]]);u8,u9,u10=fft4([s[2],s[5],s[8],s[11]])
v0,v4,v8=block1([u0,u4,u8],B1);v1,v5,v9=block2([u1,u5,u9],B2);v2,v6,v10=block3([u2,u6,u10],B3)
r0,r3,r6,r9=ifft4((v0,v1,v2));r1,r4,r7,r10=ifft4((v4,v5,v6));r2,r5,r8,r11=ifft4((v8,v9,v10))
out=[r0,r1,r2,r3,r4,r5,r6,r7,r8,r9,r10,r11]
row=[7,23,8,26,13,10,9,7,6,22,21,8]
# MDS[i][j] = row[(j - i) mod 12]; result_i = sum_j MDS[i][j]*s_j
sol=z3.Solver()
for v in s: sol.add(v>=0, v<2**32)
bad=[]
for i in range(12):
    exp=sum(row[(j-i)%12]*s[j] for j in range(12))
    bad.append(out[i]!=exp)
    bad.append(z3.Or(out[i]<0,out[i]>=2**64))
# intermediate no-overflow in i64 for a few key intermediates
for t in [u0,u4,u8,u2,u6,u10,v0,v4,v8,v2,v6,v10,u1[0],u1[1],v1[0],v1[1],v5[0],v9[1]]:
    bad.append(z3.Or(t< -2**63, t>=2**63))
sol.add(z3.Or(bad))
t=time.time(); print(sol.check(), time.time()-t)
