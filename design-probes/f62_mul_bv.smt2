(set-logic ALL)
(declare-const x (_ BitVec 128))
(define-fun M () (_ BitVec 128) (_ bv4611624995532046337 128))
(define-fun U () (_ BitVec 64) (_ bv4611624995532046335 64))
; x = a*b with a,b < 2M  =>  x <= (2M-1)^2
(assert (bvule x (_ bv85068340397663785572344939756732284929 128)))
(define-fun xl () (_ BitVec 64) ((_ extract 63 0) x))
(define-fun q () (_ BitVec 64) (bvmul xl U))
(define-fun t () (_ BitVec 128) (bvadd x (bvmul ((_ zero_extend 64) q) M)))
(define-fun r () (_ BitVec 64) ((_ extract 127 64) t))
; no overflow of x + q*M in 128 bits, low half zero, r < 2M
(define-fun t129 () (_ BitVec 129) (bvadd ((_ zero_extend 1) x) ((_ zero_extend 1) (bvmul ((_ zero_extend 64) q) M))))
(assert (not (and (= ((_ extract 128 128) t129) #b0) (= ((_ extract 63 0) t) #x0000000000000000) (bvult r (_ bv9223249991064092674 64)))))
(check-sat)
