# hand transliteration of f128 mul (math/src/field/f128/mod.rs) into z3 Int terms with the 64x64 limb products opaque
import z3, time, sys
W=2**64; W2=2**128
M=340282366920938463463374557953744961537
M0=M%W; M1=M//W
a0,a1,b0,b1=z3.Ints('a0 a1 b0 b1')
# opaque limb products
p={k:z3.Int('p'+k) for k in ['a0bh','a1bh','a0bl','a1bl']}
L=(W-1)**2
cons=[z3.And(0<=v, v<=L) for v in p.values()]
cons+= [0<=a0,a0<W,0<=a1,a1<W,0<=b0,b0<W,0<=b1,b1<W, a1*W+a0 < M, b1*W+b0 < M]
def mod(x,m): return x % m
def mul_128x64(plo,phi):
    z_lo=plo; z_hi=phi+z_lo/W          # z3 Int '/' is floor div for positive
    return (mod(z_lo,W), mod(z_hi,W), z_hi/W)
def sub_192(a,b):
    z0=mod(a[0]-b[0],W2); z1=mod(a[1]-(b[1]+z0/(2**127)),W2); z2=mod(a[2]-(b[2]+z1/(2**127)),W2)
    return (mod(z0,W),mod(z1,W),mod(z2,W))
def mul_by_modulus(a):
    a_lo=mod(a*M,W2); a_hi=z3.If(a==0,0,a-1)
    return (mod(a_lo,W), a_lo/W, a_hi)
def mul_reduce(z): return sub_192(z, mul_by_modulus(z[2]))
def sub_modulus(lo,hi):
    z=mod((W2-M)+lo+hi*W, W2); return (mod(z,W), z/W)
def add64c(a,b,c):
    r=a+b+c; return (mod(r,W), r/W)
x=mul_128x64(p['a0bh'],p['a1bh'])
x0,x1,x2=mul_reduce(x)
t=sub_modulus(x0,x1)
x0=z3.If(x2==1,t[0],x0); x1=z3.If(x2==1,t[1],x1)
y0,y1,y2=mul_128x64(p['a0bl'],p['a1bl'])
y1,carry=add64c(y1,x0,0)
y2,y3=add64c(y2,x1,carry)
t=sub_modulus(y1,y2)
y1=z3.If(y3==1,t[0],y1); y2=z3.If(y3==1,t[1],y2)
z0,z1,z2=mul_reduce((y0,y1,y2))
t=sub_modulus(z0,z1)
cond=z3.Or(z2==1, z3.And(z1==M1, z0>=M0))
z0=z3.If(cond,t[0],z0); z1=z3.If(cond,t[1],z1)
res=z1*W+z0
X=(p['a0bh']+p['a1bh']*W)*W + (p['a0bl']+p['a1bl']*W)
s=z3.Solver(); s.add(cons)
which=sys.argv[1] if len(sys.argv)>1 else 'range'
if which=='range': s.add(z3.Not(z3.And(res>=0,res<M)))
else: s.add(X % M != res)
s.set('timeout',280000)
t0=time.time(); print(which, s.check(), time.time()-t0)
