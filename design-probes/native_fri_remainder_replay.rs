mod toy; mod ph1w;
use toy::T; use ph1w::{PD, PairHash};
use crypto::{DefaultRandomCoin, RandomCoin, BatchMerkleProof};
use fri::{DefaultProverChannel, DefaultVerifierChannel, FriOptions, FriProof, FriProver, FriVerifier, VerifierChannel};
use math::{get_power_series_with_offset, polynom, StarkField};

struct RemCh { inner: DefaultVerifierChannel<T, PairHash>, rem: Vec<T> }
impl VerifierChannel<T> for RemCh {
    type Hasher = PairHash;
    fn read_fri_num_partitions(&self) -> usize { self.inner.read_fri_num_partitions() }
    fn read_fri_layer_commitments(&mut self) -> Vec<PD> { self.inner.read_fri_layer_commitments() }
    fn take_next_fri_layer_proof(&mut self) -> BatchMerkleProof<PairHash> { self.inner.take_next_fri_layer_proof() }
    fn take_next_fri_layer_queries(&mut self) -> Vec<T> { self.inner.take_next_fri_layer_queries() }
    fn take_fri_remainder(&mut self) -> Vec<T> { self.rem.clone() }
}
fn main() {
    let options = FriOptions::new(2, 2, 1);
    let poly = [T(5), T(100), T(7), T(201)];
    let g = T::get_root_of_unity(3);
    let domain = get_power_series_with_offset(g, T::GENERATOR, 8);
    let evals = polynom::eval_many(&poly, &domain);
    let mut channel = DefaultProverChannel::<T, PairHash, DefaultRandomCoin<PairHash>>::new(8, 1);
    let mut prover = FriProver::new(options.clone());
    prover.build_layers(&mut channel, evals.clone());
    let positions = channel.draw_query_positions(0);
    let proof: FriProof = prover.build_proof(&positions);
    let commits = channel.layer_commitments().to_vec();
    let honest: Vec<T> = proof.parse_remainder().unwrap();
    println!("honest remainder = {:?}, positions = {:?}", honest, positions);
    let mut accepted = vec![];
    for r0 in 0..257u16 { for r1 in 0..257u16 {
        let inner = DefaultVerifierChannel::<T, PairHash>::new(proof.clone(), commits.clone(), 8, 2).unwrap();
        let mut ch = RemCh { inner, rem: vec![T(r0), T(r1)] };
        let mut coin = DefaultRandomCoin::<PairHash>::new(&[]);
        let v = FriVerifier::new(&mut ch, &mut coin, options.clone(), 3).unwrap();
        let q: Vec<T> = positions.iter().map(|&p| evals[p]).collect();
        if v.verify(&mut ch, &q, &positions).is_ok() { accepted.push((r0, r1)); }
    }}
    println!("accepted remainders: {} (first few: {:?})", accepted.len(), &accepted[..accepted.len().min(5)]);
}
