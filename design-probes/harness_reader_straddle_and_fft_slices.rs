pub mod toy;
#[cfg(kani)]
mod h {
    use crate::toy::{T, P};
    use math::{fft, polynom, FieldElement, StarkField};
    use utils::{ByteReader, ReadAdapter, SliceReader};
    use std::io::Read;
    fn nofmt(_a: core::fmt::Arguments<'_>) -> String { String::new() }
    fn anyt() -> T { let v: u16 = kani::any(); kani::assume((v as u32) < P); T(v) }

    struct Chunked<'a> { data: &'a [u8], pos: usize, chunk: usize }
    impl<'a> Read for Chunked<'a> {
        fn read(&mut self, buf: &mut [u8]) -> std::io::Result<usize> {
            let rem = self.data.len() - self.pos;
            let mut n = if rem < self.chunk { rem } else { self.chunk };
            if buf.len() < n { n = buf.len(); }
            buf[..n].copy_from_slice(&self.data[self.pos..self.pos + n]);
            self.pos += n;
            Ok(n)
        }
    }
    // 258 bytes, chunk 300 (BufReader capacity 256 limits each fill): read_u64 x? then check positions near 256
    #[kani::proof]
    #[kani::unwind(12)]
    #[kani::stub(alloc::fmt::format, nofmt)]
    fn adapter_straddle() {
        let data: [u8; 258] = kani::any();
        let mut src = Chunked { data: &data, pos: 0, chunk: 300 };
        let mut a = ReadAdapter::new(&mut src);
        let mut s = SliceReader::new(&data);
        let x = a.read_slice(250).map(|v| v[249]); let y = s.read_slice(250).map(|v| v[249]);
        assert!(x == y);
        let x = a.read_u64(); let y = s.read_u64();
        assert!(x == y);
        assert!(a.has_more_bytes() == s.has_more_bytes());
    }

    #[kani::proof]
    #[kani::unwind(18)]
    fn fft16_fixed_pos() {
        let mut p = [T(3), T(200), T(17), T(99), T(256), T(1), T(0), T(45), T(77), T(131), T(9), T(250), T(64), T(5), T(190), T(33)];
        p[5] = anyt();
        let orig = p;
        let tw = fft::get_twiddles::<T>(16);
        fft::evaluate_poly(&mut p, &tw);
        let g = T::get_root_of_unity(4);
        let mut x = T::ONE;
        let mut i = 0;
        while i < 16 { assert!(polynom::eval(&orig, x) == p[i]); x = x * g; i += 1; }
    }
    #[kani::proof]
    #[kani::unwind(18)]
    fn interp8_sym_pos() {
        let mut v = [T(3), T(200), T(17), T(99), T(256), T(1), T(0), T(45)];
        let j: usize = kani::any(); kani::assume(j < 8);
        v[j] = anyt();
        let orig = v;
        let itw = fft::get_inv_twiddles::<T>(8);
        fft::interpolate_poly_with_offset(&mut v, &itw, T::GENERATOR);
        let g = T::get_root_of_unity(3);
        let mut x = T::GENERATOR;
        let mut i = 0;
        while i < 8 { assert!(polynom::eval(&v, x) == orig[i]); x = x * g; i += 1; }
    }
}
