#!/usr/bin/env python3
"""Prototype: MIR text -> z3 bit-vector terms for loop-free integer kernels (feasibility probe)."""
import re, sys, z3

INT_BITS = {'u8': 8, 'u16': 16, 'u32': 32, 'u64': 64, 'u128': 128, 'usize': 64,
            'i8': 8, 'i16': 16, 'i32': 32, 'i64': 64, 'i128': 128, 'isize': 64}
SIGNED = {'i8', 'i16', 'i32', 'i64', 'i128', 'isize'}


class Fn:
    def __init__(self, name, params, ret):
        self.name, self.params, self.ret = name, params, ret
        self.locals = {}
        self.blocks = {}


def parse(path):
    fns, consts = {}, {}
    cur = None
    bb = None
    seen_ctfe = False
    for line in open(path):
        line = line.rstrip('\n')
        if line.startswith('// MIR FOR CTFE'):
            seen_ctfe = True
            continue
        m = re.match(r'^const (\S+): (\S+) = const (-?\d+)_\w+;', line)
        if m:
            consts[m.group(1)] = (int(m.group(3)), m.group(2))
            continue
        m = re.match(r'^(?:const )?fn (.+?)\((.*)\) -> (.+) \{$', line)
        if m:
            name = m.group(1)
            if seen_ctfe or name in fns:      # keep the first (runtime) body
                seen_ctfe = False
                cur = None
                continue
            params = []
            for p in split_top(m.group(2)):
                if p.strip():
                    pn, pt = p.split(':', 1)
                    params.append((pn.strip(), pt.strip()))
            cur = Fn(name, params, m.group(3).strip())
            for pn, pt in params:
                cur.locals[pn] = pt
            fns[name] = cur
            bb = None
            continue
        if cur is None:
            continue
        if line == '}':
            cur = None
            continue
        m = re.match(r'^\s+let (?:mut )?(_\d+): (.+);$', line)
        if m:
            cur.locals[m.group(1)] = m.group(2)
            continue
        m = re.match(r'^\s+(bb\d+)(?: \(cleanup\))?: \{$', line)
        if m:
            bb = m.group(1)
            cur.blocks[bb] = []
            continue
        s = line.strip()
        if bb and s and s != '}' and not s.startswith(('debug', 'scope', 'let ')):
            cur.blocks[bb].append(s)
    return fns, consts


def split_top(s):
    out, depth, cur = [], 0, ''
    for ch in s:
        if ch in '([<{':
            depth += 1
        elif ch in ')]>}':
            depth -= 1
        if ch == ',' and depth == 0:
            out.append(cur)
            cur = ''
        else:
            cur += ch
    if cur.strip():
        out.append(cur)
    return out


class Ctx:
    def __init__(self, fns, consts):
        self.fns, self.consts = fns, consts
        self.obligations = []   # (path_cond, cond, message)

    # ---- types -------------------------------------------------------------------------------
    def is_newtype(self, ty):
        return ty.endswith('BaseElement')

    # ---- operands ----------------------------------------------------------------------------
    def operand(self, env, fn, s):
        s = s.strip()
        if s.startswith('const '):
            c = s[6:].strip()
            m = re.match(r'^(-?\d+)_(\w+)$', c)
            if m:
                return z3.BitVecVal(int(m.group(1)), INT_BITS[m.group(2)]), m.group(2)
            if c in ('true', 'false'):
                return z3.BoolVal(c == 'true'), 'bool'
            if c in self.consts:
                v, ty = self.consts[c]
                return z3.BitVecVal(v, INT_BITS[ty]), ty
            raise NotImplementedError('const ' + c)
        if s.startswith(('copy ', 'move ')):
            return self.place(env, fn, s[5:].strip())
        if s.startswith('&'):          # shared reference to a local: modelled as the value (read-only use)
            return self.place(env, fn, s[1:].strip())
        raise NotImplementedError('operand ' + s)

    def place(self, env, fn, p):
        m = re.match(r'^\(\(\*(_\d+)\)\.(\d+): (.+)\)$', p)
        if m:
            return env[m.group(1)][int(m.group(2))], m.group(3)
        m = re.match(r'^\((_\d+)\.(\d+): (.+)\)$', p)
        if m:
            base = env[m.group(1)]
            return base[int(m.group(2))], m.group(3)
        m = re.match(r'^\(\*(_\d+)\)$', p)
        if m:
            return env[m.group(1)], fn.locals[m.group(1)].lstrip('&').strip()
        return env[p], fn.locals[p]

    # ---- rvalues -----------------------------------------------------------------------------
    def rvalue(self, env, fn, r, pc):
        r = r.strip()
        m = re.match(r'^(.+) as (\w+) \(IntToInt\)$', r)
        if m:
            v, ty = self.operand(env, fn, m.group(1))
            to = m.group(2)
            if ty == 'bool':
                v = z3.If(v, z3.BitVecVal(1, INT_BITS[to]), z3.BitVecVal(0, INT_BITS[to]))
                return v
            fb, tb = INT_BITS[ty], INT_BITS[to]
            if tb == fb:
                return v
            if tb < fb:
                return z3.Extract(tb - 1, 0, v)
            return z3.SignExt(tb - fb, v) if ty in SIGNED else z3.ZeroExt(tb - fb, v)
        m = re.match(r'^(\w+)\((.*)\)$', r)
        if m and m.group(1) in ('Add', 'Sub', 'Mul', 'BitAnd', 'BitOr', 'BitXor', 'Shl', 'Shr', 'Lt', 'Le', 'Gt', 'Ge',
                                'Eq', 'Ne', 'AddWithOverflow', 'SubWithOverflow', 'MulWithOverflow'):
            op = m.group(1)
            a, b = split_top(m.group(2))
            (x, tx), (y, ty) = self.operand(env, fn, a), self.operand(env, fn, b)
            n = x.size()
            if op in ('Shl', 'Shr'):
                y = z3.ZeroExt(n - y.size(), y) if y.size() < n else z3.Extract(n - 1, 0, y)
                if op == 'Shl':
                    return x << y
                return (x >> y) if tx in SIGNED else z3.LShR(x, y)
            sg = tx in SIGNED
            if op == 'Add': return x + y
            if op == 'Sub': return x - y
            if op == 'Mul': return x * y
            if op == 'BitAnd': return x & y
            if op == 'BitOr': return x | y
            if op == 'BitXor': return x ^ y
            if op == 'Lt': return (x < y) if sg else z3.ULT(x, y)
            if op == 'Le': return (x <= y) if sg else z3.ULE(x, y)
            if op == 'Gt': return (x > y) if sg else z3.UGT(x, y)
            if op == 'Ge': return (x >= y) if sg else z3.UGE(x, y)
            if op == 'Eq': return x == y
            if op == 'Ne': return x != y
            ext = z3.SignExt if sg else z3.ZeroExt
            if op == 'AddWithOverflow':
                w = ext(1, x) + ext(1, y)
                return (x + y, w != ext(1, x + y))
            if op == 'SubWithOverflow':
                w = ext(1, x) - ext(1, y)
                return (x - y, w != ext(1, x - y))
            if op == 'MulWithOverflow':
                w = ext(n, x) * ext(n, y)
                return (x * y, w != ext(n, x * y))
        m = re.match(r'^(Not|Neg)\((.*)\)$', r)
        if m:
            v, ty = self.operand(env, fn, m.group(2))
            if m.group(1) == 'Not':
                return z3.Not(v) if ty == 'bool' else ~v
            return -v
        m = re.match(r'^([\w:]+BaseElement)\((.*)\)$', r)
        if m:   # newtype constructor
            return (self.operand(env, fn, m.group(2))[0],)
        m = re.match(r'^\((.*)\)$', r)
        if m and not r.startswith('(_'):
            return tuple(self.operand(env, fn, a)[0] for a in split_top(m.group(1)))
        return self.operand(env, fn, r)[0]

    # ---- intrinsics --------------------------------------------------------------------------
    def intrinsic(self, name, args):
        m = re.match(r'^core::num::<impl (\w+)>::(\w+)$', name)
        if not m:
            return None
        ty, op = m.group(1), m.group(2)
        n = INT_BITS[ty]
        a = args
        ext = z3.SignExt if ty in SIGNED else z3.ZeroExt
        if op == 'wrapping_add': return a[0] + a[1]
        if op == 'wrapping_sub': return a[0] - a[1]
        if op == 'wrapping_mul': return a[0] * a[1]
        if op == 'wrapping_neg': return -a[0]
        if op == 'overflowing_add': return (a[0] + a[1], ext(1, a[0]) + ext(1, a[1]) != ext(1, a[0] + a[1]))
        if op == 'overflowing_sub': return (a[0] - a[1], ext(1, a[0]) - ext(1, a[1]) != ext(1, a[0] - a[1]))
        return None

    # ---- execution ---------------------------------------------------------------------------
    def call(self, name, args, pc, depth=0):
        v = self.intrinsic(name, args)
        if v is not None:
            return v
        if name not in self.fns:
            raise NotImplementedError('call ' + name)
        fn = self.fns[name]
        env = {}
        for (pn, pt), a in zip(fn.params, args):
            env[pn] = a
        results = []
        self.run(fn, env, 'bb0', pc, results, depth)
        # merge return values
        out = results[-1][1]
        for cond, val in reversed(results[:-1]):
            out = merge(cond, val, out)
        return out

    def run(self, fn, env, bb, pc, results, depth):
        env = dict(env)
        for st in fn.blocks[bb]:
            if st in ('return;',):
                results.append((pc, env['_0']))
                return
            m = re.match(r'^goto -> (bb\d+);$', st)
            if m:
                return self.run(fn, env, m.group(1), pc, results, depth)
            m = re.match(r'^assert\((!?)(.+?), "(.*?)".*\) -> \[success: (bb\d+), unwind.*\];$', st)
            if m:
                c = self.operand(env, fn, m.group(2))[0]
                if m.group(1):
                    c = z3.Not(c)
                self.obligations.append((pc, c, f'{fn.name}: {m.group(3)}'))
                pc = z3.And(pc, c)
                return self.run(fn, env, m.group(4), pc, results, depth)
            m = re.match(r'^switchInt\((.+)\) -> \[(.*)\];$', st)
            if m:
                v, ty = self.operand(env, fn, m.group(1))
                taken = []
                for arm in m.group(2).split(','):
                    k, tgt = arm.strip().split(': ')
                    if k == 'otherwise':
                        cond = z3.And([z3.Not(t) for t in taken]) if taken else z3.BoolVal(True)
                    else:
                        cond = (v == (z3.BoolVal(k != '0') if ty == 'bool' else z3.BitVecVal(int(k), v.size())))
                        taken.append(cond)
                    self.run(fn, env, tgt, z3.And(pc, cond), results, depth)
                return
            m = re.match(r'^(_\d+|\(_\d+\.\d+: [^)]+\)) = (.+?)\((.*)\) -> \[return: (bb\d+), unwind.*\];$', st)
            if m and not re.match(r'^(Add|Sub|Mul|Shl|Shr|Lt|Le|Gt|Ge|Eq|Ne|BitAnd|BitOr|BitXor|Not|Neg)$', m.group(2)):
                args = [self.operand(env, fn, a)[0] for a in split_top(m.group(3))]
                callee = m.group(2)
                env[m.group(1)] = self.call(resolve(self, callee), args, pc, depth + 1)
                return self.run(fn, env, m.group(4), pc, results, depth)
            m = re.match(r'^(_\d+) = (.+);$', st)
            if m:
                env[m.group(1)] = self.rvalue(env, fn, m.group(2), pc)
                continue
            if st.startswith(('StorageLive', 'StorageDead', 'ConstEvalCounter', 'nop', 'FakeRead')):
                continue
            raise NotImplementedError(f'{fn.name}: {st}')
        raise NotImplementedError('fell off block ' + bb)


def resolve(ctx, callee):
    if callee in ctx.fns or callee.startswith('core::num::'):
        return callee
    # trait call on the f64 type: <field::f64::BaseElement as Sub>::sub / FieldElement>::square ...
    m = re.match(r'^<field::(\w+)::BaseElement as (?:[\w:]+::)?(\w+)(?:<.*>)?>::(\w+)$', callee)
    if m:
        fld, trait, meth = m.groups()
        for name in ctx.fns:
            if name.startswith(f'field::{fld}::<impl at') and name.endswith('::' + meth):
                src = re.search(r'impl at (\S+?):(\d+):', name)
                line = open('/repo/' + src.group(1)).read().split('\n')[int(src.group(2)) - 1]
                if re.search(r'\b' + trait + r'\b', line):
                    return name
    m = re.match(r'^field::(\w+)::BaseElement::(\w+)$', callee)
    if m:
        for name in ctx.fns:
            if name.startswith(f'field::{m.group(1)}::<impl at') and name.endswith('::' + m.group(2)):
                return name
    raise NotImplementedError('resolve ' + callee)


def merge(c, a, b):
    if isinstance(a, tuple):
        return tuple(merge(c, x, y) for x, y in zip(a, b))
    return z3.If(c, a, b)


if __name__ == '__main__':
    fns, consts = parse(sys.argv[1])
    print(len(fns), 'functions,', len(consts), 'scalar consts')
    ctx = Ctx(fns, consts)
    M = 0xFFFFFFFF00000001
    a, b = z3.BitVec('a', 64), z3.BitVec('b', 64)
    pre = z3.And(z3.ULT(a, M), z3.ULT(b, M))

    def fname(suffix, line_pat):
        for n in fns:
            if n.endswith(suffix) and re.search(line_pat, n):
                return n
        raise KeyError(suffix)

    import time
    def prove(label, claim):
        s = z3.Solver(); s.set('timeout', 60000)
        s.add(pre, z3.Not(claim))
        t = time.time(); r = s.check()
        print(f'{label}: {"HOLDS" if r == z3.unsat else r} {time.time()-t:.2f}s')

    Mv = z3.BitVecVal(M, 65)
    add = ctx.call(fname('::add', r'f64/mod.rs:312'), [(a,), (b,)], z3.BoolVal(True))[0]
    s65 = z3.ZeroExt(1, a) + z3.ZeroExt(1, b)
    prove('f64 add == (a+b) mod M', add == z3.Extract(63, 0, z3.If(z3.UGE(s65, Mv), s65 - Mv, s65)))
    sub = ctx.call(fname('::sub', r'f64/mod.rs:332'), [(a,), (b,)], z3.BoolVal(True))[0]
    prove('f64 sub == (a-b) mod M', sub == z3.If(z3.UGE(a, b), a - b, a - b + z3.BitVecVal(M, 64)))
    for pc, c, msg in ctx.obligations:
        s = z3.Solver(); s.add(pre, pc, z3.Not(c))
        print('  no-panic:', msg[:70], '->', 'ok' if s.check() == z3.unsat else 'REACHABLE')
    ctx.obligations.clear()
    # mul: product abstracted -> prove kernel on arbitrary x in range, via the real mont_red_cst MIR
    x = z3.BitVec('x', 128)
    r = ctx.call('mont_red_cst', [x], z3.BoolVal(True))
    xh = z3.Extract(127, 64, x)
    print('mont_red_cst term size:', len(r.sexpr()))
    open('/tmp/mirsmt/mont_red_cst.smt2', 'w').write('(set-logic ALL)\n(declare-const x (_ BitVec 128))\n(define-fun r () (_ BitVec 64) ' + r.sexpr() + ')\n')
    print('obligations recorded in mont_red_cst:', len(ctx.obligations))
    # mul through the real Mul::mul MIR (inlines mont_red_cst); check only no-panic of the u128 product
    ctx.obligations.clear()
    mul = ctx.call(fname('::mul', r'f64/mod.rs:351'), [(a,), (b,)], z3.BoolVal(True))[0]
    for pc, c, msg in ctx.obligations:
        s = z3.Solver(); s.set('timeout', 60000); s.add(pre, pc, z3.Not(c))
        print('  no-panic:', msg[:70], '->', 'ok' if s.check() == z3.unsat else 'REACHABLE/unknown')
    ms = ctx.call(fname('::mul_small', r'f64/mod.rs:64'), [(a,), z3.BitVec('s', 32)], z3.BoolVal(True))[0]
    s_ = z3.Solver(); s_.add(pre, z3.UGE(ms, z3.BitVecVal(M, 64)))
    print('mul_small result >= M reachable:', s_.check(), s_.model() if s_.check() == z3.sat else '')
