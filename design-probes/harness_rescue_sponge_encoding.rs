pub mod toy;
#[cfg(kani)]
mod h {
    use crypto::hashers::Rp64_256;
    use crypto::{Hasher, ElementHasher};
    use math::fields::f64::BaseElement as F;
    use math::FieldElement;

    fn nofmt(_a: core::fmt::Arguments<'_>) -> String { String::new() }

    static mut LOG: [[u64; 12]; 4] = [[0; 12]; 4];
    static mut NLOG: usize = 0;
    fn perm_stub(state: &mut [F; 12]) {
        unsafe {
            let p = core::ptr::addr_of_mut!(LOG);
            let n = NLOG;
            if n < 4 { let mut i = 0; while i < 12 { (*p)[n][i] = state[i].inner(); i += 1; } }
            NLOG = n + 1;
        }
        // transparent "permutation": rotate and tweak so that later absorption cannot cancel
        let s0 = state[0];
        let mut i = 0; while i < 11 { state[i] = state[i + 1]; i += 1; }
        state[11] = s0 + F::ONE;
    }

    fn new_stub(v: u64) -> F { assert!(v < 0xFFFFFFFF00000001); F::from_mont(v) }

    // two byte strings of symbolic lengths <= 9: equal logs => equal strings
    #[kani::proof]
    #[kani::unwind(14)]
    #[kani::stub(alloc::fmt::format, nofmt)]
    #[kani::stub(Rp64_256::apply_permutation, perm_stub)]
    #[kani::stub(F::new, new_stub)]
    fn rp64_encoding_injective() {
        let a: [u8; 9] = kani::any(); let b: [u8; 9] = kani::any();
        let la: usize = kani::any(); let lb: usize = kani::any();
        kani::assume(la <= 9 && lb <= 9);
        unsafe { NLOG = 0; }
        let _ = Rp64_256::hash(&a[..la]);
        let (log_a, n_a) = unsafe { (LOG, NLOG) };
        unsafe { NLOG = 0; LOG = [[0; 12]; 4]; }
        let _ = Rp64_256::hash(&b[..lb]);
        let (log_b, n_b) = unsafe { (LOG, NLOG) };
        let mut same = n_a == n_b;
        let mut i = 0; while i < 12 { if log_a[0][i] != log_b[0][i] { same = false; } i += 1; }
        if same {
            assert!(la == lb);
            let mut k = 0; while k < 9 { if k < la { assert!(a[k] == b[k]); } k += 1; }
        }
    }
}
