use std::panic::{catch_unwind, AssertUnwindSafe};
use air::{ProofOptions, TraceInfo, proof::{Table, OodFrame}};
use crypto::{hashers::Blake3_256, MerkleTree, Hasher, BatchMerkleProof};
use math::fields::f128::BaseElement as F128;
use math::FieldElement;
use utils::{ByteReader, Deserializable, ReadAdapter, Serializable, SliceReader};
use std::io::Read;

type H = Blake3_256<F128>;
struct Chunked<'a> { data: &'a [u8], pos: usize, chunk: usize }
impl<'a> Read for Chunked<'a> {
    fn read(&mut self, buf: &mut [u8]) -> std::io::Result<usize> {
        let n = self.chunk.min(self.data.len() - self.pos).min(buf.len());
        buf[..n].copy_from_slice(&self.data[self.pos..self.pos + n]); self.pos += n; Ok(n)
    }
}
fn p<T>(name: &str, f: impl FnOnce() -> T) -> Option<T> {
    let r = catch_unwind(AssertUnwindSafe(f));
    println!("{name}: {}", if r.is_ok() { "returned" } else { "PANICKED" });
    r.ok()
}
fn main() {
    std::panic::set_hook(Box::new(|_| {}));
    // (a) Merkle surplus node
    let leaves: Vec<_> = (0..8u8).map(|i| H::hash(&[i])).collect();
    let tree = MerkleTree::<H>::new(leaves).unwrap();
    let mut proof = tree.prove_batch(&[1]).unwrap();
    proof.nodes[0].push(H::hash(b"junk"));
    println!("(a) surplus node accepted: {}", MerkleTree::<H>::verify_batch(tree.root(), &[1], &proof).is_ok());
    // (b)
    p("(b) ProofOptions::read_from([0;6])", || ProofOptions::read_from_bytes(&[0u8; 6]).is_ok());
    // (c)
    let ti = TraceInfo::new(255, 8);
    println!("(c) TraceInfo width 255 roundtrip ok: {}", TraceInfo::read_from_bytes(&ti.to_bytes()).is_ok());
    let ti2 = p("(c2) TraceInfo::new_multi_segment(1,1,0,8)", || TraceInfo::new_multi_segment(1, 1, 0, 8, vec![]));
    if let Some(t) = ti2 { println!("(c2) roundtrip ok: {}", TraceInfo::read_from_bytes(&t.to_bytes()).is_ok()); }
    p("(c3) TraceInfo::read_from exp=200", || TraceInfo::read_from_bytes(&[1, 0, 0, 200, 0, 0]).is_ok());
    // (d) ReadAdapter
    let data = [1u8, 2, 3, 4];
    p("(d1) ReadAdapter 1-byte chunks read_slice(2)", || { let mut s = Chunked { data: &data, pos: 0, chunk: 1 }; let mut a = ReadAdapter::new(&mut s); a.read_slice(2).map(|v| v.to_vec()) });
    { let mut s = Chunked { data: &data, pos: 0, chunk: 4 }; let mut a = ReadAdapter::new(&mut s); let x = a.read_slice(2).map(|v| v.to_vec()); let y = a.read_u8(); println!("(d2) read_slice(2)={:?} then read_u8={:?} (expected 3)", x, y); }
    // (g) Table 255 rows
    let bytes = vec![0u8; 255 * 16];
    p("(g) Table::from_bytes 255 rows", || Table::<F128>::from_bytes(&bytes, 255, 1).is_ok());
    // (h) MerkleTree::verify short proof
    p("(h) MerkleTree::verify with 1-node path", || MerkleTree::<H>::verify(*tree.root(), 0, &[H::hash(b"x")]).is_ok());
    // (i) Option<Vec<u8>> with huge length
    let mut b = vec![1u8, 0]; b.extend_from_slice(&u64::MAX.to_le_bytes());
    p("(i) Option<Vec<u8>>::read_from huge len", || Option::<Vec<u8>>::read_from_bytes(&b).is_ok());
    // (e) OodFrame: trailing bytes after zero lagrange frame size
    let mut frame = OodFrame::default();
    let tf = air::proof::TraceOodFrame::new(vec![F128::ONE], vec![F128::ONE], 1, None);
    frame.set_trace_states::<F128, H>(&tf);
    frame.set_constraint_evaluations(&[F128::ONE]);
    let mut bytes = frame.to_bytes();
    // layout: u16 len | trace_states | u16 len | lagrange | u16 len | evals ; lagrange section is [0]
    let ts_len = u16::from_le_bytes([bytes[0], bytes[1]]) as usize;
    let lag_off = 2 + ts_len;
    assert_eq!(&bytes[lag_off..lag_off + 3], &[1, 0, 0]);
    bytes[lag_off] = 2; bytes.insert(lag_off + 3, 0xAA);
    let f2 = OodFrame::read_from_bytes(&bytes).unwrap();
    println!("(e) frames differ: {}, parse of mutated ok: {}", f2 != frame, f2.parse::<F128>(1, 0, 1).is_ok());
    // (j) OodFrame aux=0 with lagrange frame / frame size 1
    let mut b2 = frame.to_bytes(); b2[2] = 1; // frame_size byte
    let f3 = OodFrame::read_from_bytes(&b2).unwrap();
    p("(j) OodFrame frame_size=1 parse + main_frame", || f3.parse::<F128>(1, 0, 1).map(|(t, _)| t.main_frame().current().len()));
}
