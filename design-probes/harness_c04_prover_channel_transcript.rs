pub mod toy;
pub mod ph1w;
use toy::T;
use ph1w::{PD, PairHash};
use air::{Air, AirContext, Assertion, EvaluationFrame, ProofOptions, TraceInfo, TransitionConstraintDegree, FieldExtension};
use crypto::{RandomCoin, RandomCoinError, Hasher, ElementHasher};
use math::{FieldElement, ToElements};

pub struct ToyAir { ctx: AirContext<T> }
impl Air for ToyAir {
    type BaseField = T;
    type PublicInputs = T;
    type GkrProof = ();
    type GkrVerifier = ();
    fn new(trace_info: TraceInfo, _pi: T, options: ProofOptions) -> Self {
        ToyAir { ctx: AirContext::new(trace_info, vec![TransitionConstraintDegree::new(1)], 1, options) }
    }
    fn context(&self) -> &AirContext<T> { &self.ctx }
    fn evaluate_transition<E: FieldElement<BaseField = T>>(&self, frame: &EvaluationFrame<E>, _p: &[E], result: &mut [E]) {
        result[0] = frame.next()[0] - frame.current()[0];
    }
    fn get_assertions(&self) -> Vec<Assertion<T>> { vec![Assertion::single(0, 0, T::ONE)] }
}

/// Transparent coin: state is the injective transcript digest; draws return ONE and are counted.
pub struct SpecCoin { pub seed: PD, pub draws: u32, pub reseeds: u32 }
impl RandomCoin for SpecCoin {
    type BaseField = T;
    type Hasher = PairHash;
    fn new(seed: &[T]) -> Self { SpecCoin { seed: PairHash::hash_elements(seed), draws: 0, reseeds: 0 } }
    fn reseed(&mut self, data: PD) { self.seed = PairHash::merge(&[self.seed, data]); self.reseeds += 1; }
    fn check_leading_zeros(&self, _v: u64) -> u32 { 0 }
    fn draw<E: FieldElement<BaseField = T>>(&mut self) -> Result<E, RandomCoinError> { self.draws += 1; Ok(E::ONE) }
    fn draw_integers(&mut self, n: usize, _d: usize, _nonce: u64) -> Result<Vec<usize>, RandomCoinError> { Ok(vec![0; n]) }
}

#[cfg(kani)]
mod h {
    use super::*;
    use prover::verif_hooks::ProverChannel;
    use air::proof::Context;
    fn nofmt(_a: core::fmt::Arguments<'_>) -> String { String::new() }
    fn dig() -> PD { let v: u8 = kani::any(); PD::mk((v & 15) as u128, 4) }

    #[kani::proof]
    #[kani::unwind(12)]
    #[kani::stub(alloc::fmt::format, nofmt)]
    fn c04_channel_absorbs() {
        let opts = ProofOptions::new(1, 2, 0, FieldExtension::None, 2, 1);
        let air = ToyAir::new(TraceInfo::new(1, 8), T::ONE, opts.clone());
        let pv: u16 = kani::any(); kani::assume((pv as u32) < toy::P);
        let mut ch = ProverChannel::<ToyAir, T, PairHash, SpecCoin>::new(&air, vec![T(pv)]);
        // seed = H(context elements || public inputs)
        let mut exp_elems: Vec<T> = Context::new::<T>(TraceInfo::new(1, 8), opts).to_elements();
        exp_elems.push(T(pv));
        let s0 = PairHash::hash_elements(&exp_elems);
        assert!(ch.public_coin().seed == s0);
        let d1 = dig();
        ch.commit_trace(d1);
        let s1 = PairHash::merge(&[s0, d1]);
        assert!(ch.public_coin().seed == s1);
        let d2 = dig();
        ch.commit_constraints(d2);
        let s2 = PairHash::merge(&[s1, d2]);
        assert!(ch.public_coin().seed == s2);
        let _z: T = ch.get_ood_point();
        assert!(ch.public_coin().seed == s2 && ch.public_coin().draws == 1);
        let e: u16 = kani::any(); kani::assume((e as u32) < toy::P);
        ch.send_ood_constraint_evaluations(&[T(e)]);
        let s3 = PairHash::merge(&[s2, PairHash::hash_elements(&[T(e)])]);
        assert!(ch.public_coin().seed == s3);
        core::mem::forget(ch);
    }
}
