#!/usr/bin/env python3
"""Ring-abstraction mode prototype: evaluate real ExtensibleField MIR with base-field ops replaced by Z ring ops."""
import re, sys, z3, time
from mirsmt import parse, split_top

RING = {'Mul::mul': lambda a, b: a * b, 'Add::add': lambda a, b: a + b, 'Sub::sub': lambda a, b: a - b,
        'Neg::neg': lambda a: -a, 'FieldElement::double': lambda a: 2 * a, 'FieldElement::square': lambda a: a * a}

def run(fns, consts, name, args, fld):
    fn = fns[name]
    env = {pn: a for (pn, _), a in zip(fn.params, args)}
    bb = 'bb0'
    def operand(s):
        s = s.strip()
        if s.startswith('const '):
            c = s[6:]
            m = re.match(r'^(-?\d+)_\w+$', c)
            if m: return int(m.group(1))
            raise NotImplementedError(s)
        p = s.split(' ', 1)[1] if s.startswith(('copy ', 'move ')) else s
        m = re.match(r'^(_\d+)\[(_\d+)\]$', p)
        if m: return env[m.group(1)][env[m.group(2)]]
        return env[p]
    while True:
        for st in fn.blocks[bb]:
            if st == 'return;': return env['_0']
            m = re.match(r'^assert\((!?)(.+?), ".*\) -> \[success: (bb\d+), unwind.*\];$', st)
            if m:
                c = operand(m.group(2)); assert isinstance(c, bool) and (c != bool(m.group(1))), st
                bb = m.group(3); break
            m = re.match(r'^goto -> (bb\d+);$', st)
            if m: bb = m.group(1); break
            m = re.match(r'^(_\d+) = <(?:field::)?' + fld + r'::BaseElement as (?:[\w:]+::)?(\w+)>::(\w+)\((.*)\) -> \[return: (bb\d+), unwind.*\];$', st)
            if m:
                key = m.group(2) + '::' + m.group(3)
                a = [operand(x) for x in split_top(m.group(4))]
                env[m.group(1)] = RING[key](*a); bb = m.group(5); break
            m = re.match(r'^(_\d+) = Lt\((.+), (.+)\);$', st)
            if m: env[m.group(1)] = operand(m.group(2)) < operand(m.group(3)); continue
            m = re.match(r'^(_\d+) = \[(.*)\];$', st)
            if m: env[m.group(1)] = [operand(x) for x in split_top(m.group(2))]; continue
            m = re.match(r'^(_\d+) = (.+);$', st)
            if m: env[m.group(1)] = operand(m.group(2)); continue
            raise NotImplementedError(st)
        else:
            raise NotImplementedError('fell off')

if __name__ == '__main__':
    fns, consts = parse(sys.argv[1])
    a = [z3.Int(f'a{i}') for i in range(3)]; b = [z3.Int(f'b{i}') for i in range(3)]
    def find(fld, line, meth):
        for n in fns:
            if f'{fld}/mod.rs:{line}:' in n and n.endswith('::' + meth): return n
        raise KeyError((fld, line, meth))
    def prove(label, got, exp):
        s = z3.Solver(); s.add(z3.Or([g != e for g, e in zip(got, exp)]))
        t = time.time(); r = s.check(); print(f'{label}: {"HOLDS over Z" if r == z3.unsat else r} {time.time()-t:.3f}s')
    # f64 cubic: x^3 - x - 1
    got = run(fns, consts, find('f64', 441, 'mul'), [a, b], 'f64')
    t3, t4 = a[1]*b[2] + a[2]*b[1], a[2]*b[2]
    exp = [a[0]*b[0] + t3, a[0]*b[1] + a[1]*b[0] + t3 + t4, a[0]*b[2] + a[1]*b[1] + a[2]*b[0] + t4]
    prove('f64 cubic mul == schoolbook mod x^3-x-1', got, exp)
    got = run(fns, consts, find('f64', 441, 'square'), [a], 'f64')
    prove('f64 cubic square == mul(a,a)', got, [e for e in [z3.substitute(x, *[(b[i], a[i]) for i in range(3)]) for x in exp]])
    # f64 quadratic: x^2 - x + 2
    got = run(fns, consts, find('f64', 399, 'mul'), [a[:2], b[:2]], 'f64')
    exp2 = [a[0]*b[0] - 2*a[1]*b[1], a[0]*b[1] + a[1]*b[0] + a[1]*b[1]]
    prove('f64 quad mul == schoolbook mod x^2-x+2', got, exp2)
    # f62 cubic: x^3 + 2x + 2 ; phi^3 = -2phi - 2 ; phi^4 = -2phi^2 - 2phi
    got = run(fns, consts, find('f62', 345, 'mul'), [a, b], 'f62')
    exp3 = [a[0]*b[0] - 2*t3, a[0]*b[1] + a[1]*b[0] - 2*t3 - 2*t4, a[0]*b[2] + a[1]*b[1] + a[2]*b[0] - 2*t4]
    prove('f62 cubic mul == schoolbook mod x^3+2x+2', got, exp3)
