pub mod toy;
pub mod ph1w;
#[cfg(kani)]
mod h {
    use crate::toy::{T, P};
    use crate::ph1w::{PD, PairHash};
    use air::{TraceInfo};
    use crypto::{RandomCoin, DefaultRandomCoin, Hasher, ElementHasher, Digest};
    use math::{polynom, batch_inversion, FieldElement, StarkField};
    use utils::{Serializable, Deserializable, SliceReader, ByteReader};
    fn nofmt(_a: core::fmt::Arguments<'_>) -> String { String::new() }
    fn anyt() -> T { let v: u16 = kani::any(); kani::assume((v as u32) < P); T(v) }

    #[kani::proof]
    #[kani::unwind(12)]
    #[kani::stub(alloc::fmt::format, nofmt)]
    fn c20_batch_inv() {
        let mut v = [T(3), T(200), T(17), T(99)];
        let zmask: u8 = kani::any();
        let mut i = 0; while i < 4 { if (zmask >> i) & 1 == 1 { v[i] = T::ZERO; } i += 1; }
        let j: usize = kani::any(); kani::assume(j < 4);
        v[j] = anyt();
        let r = batch_inversion(&v);
        let mut k = 0;
        while k < 4 {
            if v[k] == T::ZERO { assert!(r[k] == T::ZERO); } else { assert!(v[k] * r[k] == T::ONE); }
            k += 1;
        }
    }

    #[kani::proof]
    #[kani::unwind(12)]
    #[kani::stub(alloc::fmt::format, nofmt)]
    fn c20_syn_div() {
        // p(x) = q(x) * (x^2 - b) exactly  =>  syn_div(p, 2, b) == q
        let mut q = [T(5), T(100), T(7), T(201)];
        let j: usize = kani::any(); kani::assume(j < 4);
        q[j] = anyt();
        let b = anyt();
        let d = [T::ZERO - b, T::ZERO, T::ONE];
        let p = polynom::mul(&q, &d);
        let r = polynom::syn_div(&p, 2, b);
        let mut k = 0; while k < 4 { assert!(r[k] == q[k]); k += 1; }
    }

    #[kani::proof]
    #[kani::unwind(8)]
    #[kani::stub(alloc::fmt::format, nofmt)]
    fn c19_history() {
        let s = anyt();
        let mut coin = DefaultRandomCoin::<PairHash>::new(&[s]);
        let seed0 = PairHash::hash_elements(&[s]);
        let dv: u8 = kani::any(); let d = PD::mk((dv & 15) as u128, 4);
        coin.reseed(d);
        let seed1 = PairHash::merge(&[seed0, d]);
        let nonce: u64 = kani::any();
        let r = coin.draw_integers(2, 8, nonce).unwrap();
        let seed2 = PairHash::merge_with_int(seed1, nonce);
        let e1 = PairHash::merge_with_int(seed2, 1).as_bytes();
        let e2 = PairHash::merge_with_int(seed2, 2).as_bytes();
        assert!(r.len() == 2);
        assert!(r[0] == (u64::from_le_bytes([e1[0],e1[1],e1[2],e1[3],e1[4],e1[5],e1[6],e1[7]]) & 7) as usize);
        assert!(r[1] == (u64::from_le_bytes([e2[0],e2[1],e2[2],e2[3],e2[4],e2[5],e2[6],e2[7]]) & 7) as usize);
        assert!(coin.check_leading_zeros(5) == u64::from_le_bytes({ let b = PairHash::merge_with_int(seed2, 5).as_bytes(); [b[0],b[1],b[2],b[3],b[4],b[5],b[6],b[7]] }).trailing_zeros());
    }

    #[kani::proof]
    #[kani::unwind(8)]
    #[kani::stub(alloc::fmt::format, nofmt)]
    fn c12_traceinfo_roundtrip() {
        let main: usize = kani::any(); let aux: usize = kani::any(); let rands: usize = kani::any(); let k: u32 = kani::any();
        // documented constructor preconditions
        kani::assume(main >= 1 && main + aux <= 255 && aux <= 255 && rands <= 255 && k >= 3 && k <= 32);
        kani::assume(aux != 0 || rands == 0);
        let ti = TraceInfo::new_multi_segment(main, aux, rands, 1usize << k, vec![]);
        let bytes = ti.to_bytes();
        let mut r = SliceReader::new(&bytes);
        let back = TraceInfo::read_from(&mut r);
        assert!(back.is_ok());
        assert!(back.unwrap() == ti);
        assert!(!r.has_more_bytes());
    }
}
