//! single-word injective pairing hasher: width kept in the top 6 bits of one u128 (no struct padding)
use crypto::{Digest, ElementHasher, Hasher};
use math::{FieldElement, StarkField};
use utils::{ByteReader, ByteWriter, Deserializable, DeserializationError, Serializable};
use crate::toy::T;
#[derive(Copy, Clone, Debug, Default, PartialEq, Eq)]
#[repr(transparent)]
pub struct PD(pub u128);
impl PD { pub fn mk(v: u128, w: u128) -> PD { PD((w << 121) | v) } pub fn v(self) -> u128 { self.0 & ((1u128 << 121) - 1) } pub fn w(self) -> u128 { self.0 >> 121 } }
impl Digest for PD { fn as_bytes(&self) -> [u8; 32] { let mut r = [0u8; 32]; r[..16].copy_from_slice(&self.0.to_le_bytes()); r } }
impl Serializable for PD { fn write_into<W: ByteWriter>(&self, t: &mut W) { t.write_u128(self.0) } }
impl Deserializable for PD { fn read_from<R: ByteReader>(s: &mut R) -> Result<Self, DeserializationError> { Ok(PD(s.read_u128()?)) } }
pub struct PairHash;
impl Hasher for PairHash {
    type Digest = PD;
    const COLLISION_RESISTANCE: u32 = 128;
    fn hash(_bytes: &[u8]) -> PD { unimplemented!() }
    fn merge(x: &[PD; 2]) -> PD {
        let (a, b) = (x[0], x[1]);
        let bw = b.w();
        let v = (((a.v() << bw) | b.v()) << 7) | bw;
        PD::mk(v & ((1u128 << 121) - 1), (a.w() + bw + 7) & 127)
    }
    fn merge_with_int(seed: PD, value: u64) -> PD { PD::mk(((seed.v() << 16) | ((value as u128) & 0xffff)) & ((1u128 << 121) - 1), (seed.w() + 16) & 127) }
}
impl ElementHasher for PairHash {
    type BaseField = T;
    fn hash_elements<E: FieldElement<BaseField = T>>(e: &[E]) -> PD {
        let b = E::slice_as_base_elements(e);
        let mut acc = PD::mk(1, 1);
        for x in b { acc = PD::mk(((acc.v() << 9) | x.as_int() as u128) & ((1u128 << 121) - 1), (acc.w() + 9) & 127); }
        acc
    }
}
