//! C08 (Engine K part): the repo's GENERIC `QuadExtension<B>` / `CubeExtension<B>` inversion, conjugation, division and
//! slice reinterpretation, instantiated at the toy field F_257 (harness library supplies `ExtensibleField<2|3>` for it:
//! x^2 - 3 and x^3 - x - 1). Inversion is decided on symbolic slices: one coefficient symbolic (all 257 values), the other
//! positions zero or seed-independent constants. The per-field multiplication / Frobenius formulas are Engine M's.
use math::fields::{CubeExtension, QuadExtension};
use math::{ExtensionOf, FieldElement};

use crate::toy::{P, T};
use crate::util::nofmt;

type Q = QuadExtension<T>;
type C = CubeExtension<T>;
fn el() -> T { let v: u16 = kani::any(); kani::assume((v as u32) < P); T(v) }

macro_rules! cube_inv {
    ($name:ident, $a0:expr, $a1:expr, $a2:expr) => {
        #[kani::proof]
        #[kani::unwind(12)]
        #[kani::stub(alloc::fmt::format, nofmt)]
        fn $name() {
            let s = el();
            let pick = |c: i32| -> T { if c < 0 { s } else { T(c as u16) } };
            let x = C::new(pick($a0), pick($a1), pick($a2));
            let y = x.inv();
            if x == C::ZERO { assert!(y == C::ZERO); } else { assert!(x * y == C::ONE); assert!(C::ONE / x == y); }
            kani::cover!(x != C::ZERO);
        }
    };
}
// -1 marks the symbolic position
// @ob id=C08 tier=quick req=1 to=900 name=c08_toy_cube_inv_s00 funcs="CubeExtension::inv,CubeExtension::mul,CubeExtension::div" bounds="F_257 cubic extension; x = (s, 0, 0)" sym="s (all 257 values)" desc="x * inv(x) = 1 for x != 0, inv(0) = 0, 1/x = inv(x)"
cube_inv!(c08_toy_cube_inv_s00, -1, 0, 0);
// @ob id=C08 tier=quick req=1 to=900 name=c08_toy_cube_inv_0s0 funcs="CubeExtension::inv,CubeExtension::mul,CubeExtension::div" bounds="F_257 cubic extension; x = (0, s, 0)" sym="s (all 257 values)" desc="x * inv(x) = 1 for x != 0, inv(0) = 0, 1/x = inv(x)"
cube_inv!(c08_toy_cube_inv_0s0, 0, -1, 0);
// @ob id=C08 tier=quick req=1 to=900 name=c08_toy_cube_inv_00s funcs="CubeExtension::inv,CubeExtension::mul,CubeExtension::div" bounds="F_257 cubic extension; x = (0, 0, s)" sym="s (all 257 values)" desc="x * inv(x) = 1 for x != 0, inv(0) = 0, 1/x = inv(x)"
cube_inv!(c08_toy_cube_inv_00s, 0, 0, -1);
// @ob id=C08 tier=quick req=1 to=900 name=c08_toy_cube_inv_s_c_c funcs="CubeExtension::inv,CubeExtension::mul,CubeExtension::div" bounds="F_257 cubic extension; x = (s, 200, 256)" sym="s (all 257 values)" desc="x * inv(x) = 1 for x != 0, inv(0) = 0, 1/x = inv(x)"
cube_inv!(c08_toy_cube_inv_s_c_c, -1, 200, 256);
// @ob id=C08 tier=quick req=1 to=900 name=c08_toy_cube_inv_c_s_0 funcs="CubeExtension::inv,CubeExtension::mul,CubeExtension::div" bounds="F_257 cubic extension; x = (1, s, 0)" sym="s (all 257 values)" desc="x * inv(x) = 1 for x != 0, inv(0) = 0, 1/x = inv(x)"
cube_inv!(c08_toy_cube_inv_c_s_0, 1, -1, 0);
// @ob id=C08 tier=quick req=1 to=900 name=c08_toy_cube_inv_0_c_s funcs="CubeExtension::inv,CubeExtension::mul,CubeExtension::div" bounds="F_257 cubic extension; x = (0, 256, s)" sym="s (all 257 values)" desc="x * inv(x) = 1 for x != 0, inv(0) = 0, 1/x = inv(x)"
cube_inv!(c08_toy_cube_inv_0_c_s, 0, 256, -1);

macro_rules! quad_inv {
    ($name:ident, $a0:expr, $a1:expr) => {
        #[kani::proof]
        #[kani::unwind(12)]
        #[kani::stub(alloc::fmt::format, nofmt)]
        fn $name() {
            let s = el();
            let pick = |c: i32| -> T { if c < 0 { s } else { T(c as u16) } };
            let x = Q::new(pick($a0), pick($a1));
            let y = x.inv();
            if x == Q::ZERO { assert!(y == Q::ZERO); } else { assert!(x * y == Q::ONE); assert!(Q::ONE / x == y); }
            // conjugation fixes exactly the base field, and x * conj(x) lies in it
            let n = x * x.conjugate();
            assert!(n.to_base_elements()[1] == T(0));
            assert!((x.conjugate() == x) == (pick($a1) == T(0)));
            kani::cover!(x != Q::ZERO);
        }
    };
}
// @ob id=C08 tier=quick req=1 to=900 name=c08_toy_quad_inv_s0 funcs="QuadExtension::inv,QuadExtension::mul,QuadExtension::conjugate" bounds="F_257 quadratic extension; x = (s, 0)" sym="s" desc="x * inv(x) = 1 for x != 0, inv(0) = 0; norm in the base field; conjugation fixes exactly the base field"
quad_inv!(c08_toy_quad_inv_s0, -1, 0);
// @ob id=C08 tier=quick req=1 to=900 name=c08_toy_quad_inv_0s funcs="QuadExtension::inv,QuadExtension::mul,QuadExtension::conjugate" bounds="F_257 quadratic extension; x = (0, s)" sym="s" desc="x * inv(x) = 1 for x != 0, inv(0) = 0; norm in the base field; conjugation fixes exactly the base field"
quad_inv!(c08_toy_quad_inv_0s, 0, -1);
// @ob id=C08 tier=quick req=1 to=900 name=c08_toy_quad_inv_cs funcs="QuadExtension::inv,QuadExtension::mul,QuadExtension::conjugate" bounds="F_257 quadratic extension; x = (256, s)" sym="s" desc="x * inv(x) = 1 for x != 0, inv(0) = 0; norm in the base field; conjugation fixes exactly the base field"
quad_inv!(c08_toy_quad_inv_cs, 256, -1);

// @ob id=C08 tier=quick req=1 to=900 funcs="CubeExtension::slice_as_base_elements,CubeExtension::slice_from_base_elements,QuadExtension::slice_as_base_elements,QuadExtension::slice_from_base_elements,base_element" bounds="2 extension elements" sym="all coordinates" desc="reinterpreting slices of extension elements as base elements and back preserves every coordinate, in order"
#[kani::proof]
#[kani::unwind(10)]
#[kani::stub(alloc::fmt::format, nofmt)]
fn c08_toy_slice_reinterpretation() {
    let c = [C::new(el(), el(), el()), C::new(el(), el(), el())];
    let b = C::slice_as_base_elements(&c);
    assert!(b.len() == 6);
    let mut i = 0; while i < 6 { assert!(b[i] == c[i / 3].base_element(i % 3)); i += 1; }
    let back = C::slice_from_base_elements(b);
    assert!(back.len() == 2 && back[0] == c[0] && back[1] == c[1]);
    let q = [Q::new(el(), el()), Q::new(el(), el())];
    let bq = Q::slice_as_base_elements(&q);
    assert!(bq.len() == 4);
    let mut i = 0; while i < 4 { assert!(bq[i] == q[i / 2].base_element(i % 2)); i += 1; }
    let backq = Q::slice_from_base_elements(bq);
    assert!(backq.len() == 2 && backq[0] == q[0] && backq[1] == q[1]);
    kani::cover!(true);
}


// a base-element slice whose length is not a multiple of the extension degree cannot be reinterpreted without losing a value:
// it is refused (documented panic = the expected failure; the marker after the call must not be reachable for such lengths)
// @ob id=C08 tier=quick req=1 to=600 expect=fail forbid="PARTIAL-ELEMENT" refuse_in="slice_from_base_elements" funcs="QuadExtension::slice_from_base_elements,CubeExtension::slice_from_base_elements" bounds="0..=6 base elements" sym="length, all elements" desc="slice_from_base_elements returns only for lengths divisible by the extension degree, and then preserves every value; other lengths are refused"
#[kani::proof]
#[kani::unwind(10)]
#[kani::stub(alloc::fmt::format, nofmt)]
fn c08_toy_slice_from_base_lengths() {
    let b = [el(), el(), el(), el(), el(), el()];
    let n: usize = kani::any();
    kani::assume(n <= 6);
    if kani::any() {
        let q = Q::slice_from_base_elements(&b[..n]);
        assert!(n % 2 == 0, "PARTIAL-ELEMENT accepted by QuadExtension::slice_from_base_elements");
        assert!(q.len() * 2 == n, "PARTIAL-ELEMENT quad length");
        let i: usize = kani::any();
        kani::assume(i < n);
        assert!(q[i / 2].base_element(i % 2) == b[i], "PARTIAL-ELEMENT quad value");
        kani::cover!(n == 4);
    } else {
        let c = C::slice_from_base_elements(&b[..n]);
        assert!(n % 3 == 0, "PARTIAL-ELEMENT accepted by CubeExtension::slice_from_base_elements");
        assert!(c.len() * 3 == n, "PARTIAL-ELEMENT cube length");
        let i: usize = kani::any();
        kani::assume(i < n);
        assert!(c[i / 3].base_element(i % 3) == b[i], "PARTIAL-ELEMENT cube value");
        kani::cover!(n == 6);
    }
}

// @ob id=C08 tier=quick req=1 to=600 expect=fail desc="vacuity twin: a non-zero cubic element reaches the product check"
#[kani::proof]
#[kani::unwind(12)]
#[kani::stub(alloc::fmt::format, nofmt)]
fn c08_vacuity_twin() {
    let x = C::new(T(0), T(0), el());
    if x != C::ZERO && x * x.inv() == C::ONE { assert!(false); }
}
