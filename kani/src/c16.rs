//! C16: constraints are enforced on exactly the intended steps (generic code instantiated at the toy field F_257).
use air::{AirContext, Assertion, BoundaryConstraints, ConstraintDivisor, FieldExtension, ProofOptions, TraceInfo, TransitionConstraintDegree};
use math::{FieldElement, StarkField};

use crate::toy::T;
use crate::util::nofmt;

fn anyt() -> T { let v: u16 = kani::any(); kani::assume(v < 257); T(v) }

/// symbolic well-formed assertion for a trace of length N (kind, column, first step, stride symbolic).
/// returns (assertion, kind, first, stride) with stride = 0 for single assertions.
fn any_assertion<const N: usize>() -> (Assertion<T>, u8, usize, usize) {
    let kind: u8 = kani::any();
    kani::assume(kind < 3);
    let col: usize = kani::any();
    kani::assume(col < 2);
    let first: usize = kani::any();
    if kind == 0 {
        kani::assume(first < N);
        return (Assertion::single(col, first, T::ONE), 0, first, 0);
    }
    let ls: u32 = kani::any();
    kani::assume(ls >= 1 && ls <= 8);
    kani::assume((1usize << ls) <= N);
    let stride = 1usize << ls;
    kani::assume(first < stride);
    if kind == 1 {
        return (Assertion::periodic(col, first, stride, T::ONE), 1, first, stride);
    }
    // sequence: number of values = N / stride (must be > 1 to stay a sequence)
    kani::assume(stride < N);
    let count = N / stride;
    let mut values = Vec::new();
    let mut i = 0;
    while i < N { if i < count { values.push(T::ONE); } i += 1; }
    (Assertion::sequence(col, first, stride, values), 2, first, stride)
}
fn names(kind: u8, first: usize, stride: usize, s: usize) -> bool {
    if kind == 0 { s == first } else { s % stride == first }
}

macro_rules! c16_overlap {
    ($name:ident, $n:expr) => {
        #[kani::proof]
        #[kani::unwind(20)]
        #[kani::stub(alloc::fmt::format, nofmt)]
        fn $name() {
            let (a, ka, fa, sa) = any_assertion::<$n>();
            let (b, kb, fb, sb) = any_assertion::<$n>();
            assert!(a.validate_trace_length($n).is_ok() && b.validate_trace_length($n).is_ok());
            let mut common = false;
            let mut s = 0;
            while s < $n { if names(ka, fa, sa, s) && names(kb, fb, sb, s) { common = true; } s += 1; }
            let expected = a.column() == b.column() && common;
            assert!(a.overlaps_with(&b) == expected);
            assert!(b.overlaps_with(&a) == expected);
            kani::cover!(expected);
            kani::cover!(!expected && a.column() == b.column());
            core::mem::forget((a, b));
        }
    };
}
// @ob id=C16 tier=quick req=1 to=900 name=c16_overlap_8 funcs="Assertion::{single,periodic,sequence,overlaps_with,validate_trace_length}" bounds="trace length 8; 2 columns" sym="kind, column, first step, stride of both assertions"
c16_overlap!(c16_overlap_8, 8);
// @ob id=C16 tier=quick req=1 to=900 name=c16_overlap_16 funcs="Assertion::{single,periodic,sequence,overlaps_with,validate_trace_length}" bounds="trace length 16; 2 columns" sym="kind, column, first step, stride of both assertions"
c16_overlap!(c16_overlap_16, 16);

macro_rules! c16_transition {
    ($name:ident, $n:expr, $unwind:expr) => {
        #[kani::proof]
        #[kani::unwind($unwind)]
        #[kani::stub(alloc::fmt::format, nofmt)]
        fn $name() {
            let k: usize = kani::any();
            kani::assume(k >= 1 && k <= $n / 2 + 1);
            let d = ConstraintDivisor::<T>::from_transition($n, k);
            assert!(d.numerator().len() == 1 && d.numerator()[0].0 == $n && d.numerator()[0].1 == T::ONE);
            assert!(d.exemptions().len() == k);
            assert!(d.degree() == $n - k);
            let g = T::get_root_of_unity(($n as usize).ilog2());
            let i: usize = kani::any();
            kani::assume(i < $n);
            let x = g.exp((i as u64).into());
            // numerator x^n - 1 vanishes on the whole trace domain ...
            assert!(x.exp(($n as u64).into()) == T::ONE);
            // ... and the exemption product vanishes exactly on the last k steps
            let ex = d.evaluate_exemptions_at(x);
            assert!((ex == T::ZERO) == (i >= $n - k));
            kani::cover!(i == $n - k);
            kani::cover!(k == $n / 2 + 1);
            core::mem::forget(d);
        }
    };
}
// @ob id=C16 tier=quick req=1 to=900 name=c16_transition_8 funcs="ConstraintDivisor::{from_transition,degree,evaluate_exemptions_at,numerator,exemptions}" bounds="trace length 8" sym="number of exemptions 1..=n/2+1, step"
c16_transition!(c16_transition_8, 8, 12);
// @ob id=C16 tier=quick req=1 to=900 name=c16_transition_16 funcs="ConstraintDivisor::{from_transition,degree,evaluate_exemptions_at,numerator,exemptions}" bounds="trace length 16" sym="number of exemptions 1..=n/2+1, step"
c16_transition!(c16_transition_16, 16, 20);
// @ob id=C16 tier=thorough req=1 to=3000 name=c16_transition_32 funcs="ConstraintDivisor::{from_transition,degree,evaluate_exemptions_at}" bounds="trace length 32" sym="number of exemptions, step"
c16_transition!(c16_transition_32, 32, 36);

macro_rules! c16_assertion_divisor {
    ($name:ident, $n:expr, $unwind:expr) => {
        #[kani::proof]
        #[kani::unwind($unwind)]
        #[kani::stub(alloc::fmt::format, nofmt)]
        fn $name() {
            let (a, ka, fa, sa) = any_assertion::<$n>();
            let d = ConstraintDivisor::<T>::from_assertion(&a, $n);
            assert!(d.numerator().len() == 1 && d.exemptions().is_empty());
            let (deg, off) = d.numerator()[0];
            assert!(deg == a.get_num_steps($n));
            let g = T::get_root_of_unity(($n as usize).ilog2());
            let i: usize = kani::any();
            kani::assume(i < $n);
            let x = g.exp((i as u64).into());
            // divisor x^deg - off vanishes at step i  <=>  the assertion names step i
            let vanishes = x.exp((deg as u64).into()) == off;
            assert!(vanishes == names(ka, fa, sa, i));
            assert!((d.evaluate_at(x) == T::ZERO) == vanishes);
            kani::cover!(vanishes && ka == 2);
            kani::cover!(!vanishes && ka == 1 && fa > 0);
            core::mem::forget((a, d));
        }
    };
}
// @ob id=C16 tier=quick req=1 to=900 name=c16_assertion_divisor_8 funcs="ConstraintDivisor::{from_assertion,evaluate_at},Assertion::get_num_steps" bounds="trace length 8" sym="assertion kind, column, first step, stride; step"
c16_assertion_divisor!(c16_assertion_divisor_8, 8, 12);
// @ob id=C16 tier=quick req=1 to=1200 name=c16_assertion_divisor_16 funcs="ConstraintDivisor::{from_assertion,evaluate_at},Assertion::get_num_steps" bounds="trace length 16" sym="assertion kind, column, first step, stride; step"
c16_assertion_divisor!(c16_assertion_divisor_16, 16, 20);


// ---- from_transition with the number of exemptions ENUMERATED (one harness per k): with k symbolic a loop over the exemption
// points whose trip count is symbolic can exhaust memory on trees that compute the points iteratively (seeded change C16A);
// with k concrete everything but the step is constant-folded.
macro_rules! c16_transition_k {
    ($name:ident, $n:expr, $k:expr, $unwind:expr) => {
        #[kani::proof]
        #[kani::unwind($unwind)]
        #[kani::stub(alloc::fmt::format, nofmt)]
        fn $name() {
            let d = ConstraintDivisor::<T>::from_transition($n, $k);
            assert!(d.numerator().len() == 1 && d.numerator()[0].0 == $n && d.numerator()[0].1 == T::ONE);
            assert!(d.exemptions().len() == $k);
            assert!(d.degree() == $n - $k);
            let g = T::get_root_of_unity(($n as usize).ilog2());
            let i: usize = kani::any();
            kani::assume(i < $n);
            let x = g.exp((i as u64).into());
            let ex = d.evaluate_exemptions_at(x);
            assert!((ex == T::ZERO) == (i >= $n - $k));
            // every exemption point is the trace-domain point of one of the last k steps
            let j: usize = kani::any();
            kani::assume(j < $k);
            assert!(d.exemptions()[j] == g.exp((($n - $k + j) as u64).into()));
            kani::cover!(i == $n - $k);
            core::mem::forget(d);
        }
    };
}
// @ob id=C16 tier=quick req=1 to=600 name=c16_transition_8_k1 funcs="ConstraintDivisor::{from_transition,degree,evaluate_exemptions_at,exemptions}" bounds="trace length 8, 1 exemption" sym="step, exemption index" enum="number of exemptions"
c16_transition_k!(c16_transition_8_k1, 8, 1, 12);
// @ob id=C16 tier=quick req=1 to=600 name=c16_transition_8_k2 funcs="ConstraintDivisor::{from_transition,degree,evaluate_exemptions_at,exemptions}" bounds="trace length 8, 2 exemptions" sym="step, exemption index" enum="number of exemptions"
c16_transition_k!(c16_transition_8_k2, 8, 2, 12);
// @ob id=C16 tier=quick req=1 to=600 name=c16_transition_8_k3 funcs="ConstraintDivisor::{from_transition,degree,evaluate_exemptions_at,exemptions}" bounds="trace length 8, 3 exemptions" sym="step, exemption index" enum="number of exemptions"
c16_transition_k!(c16_transition_8_k3, 8, 3, 12);
// @ob id=C16 tier=quick req=1 to=600 name=c16_transition_8_k5 funcs="ConstraintDivisor::{from_transition,degree,evaluate_exemptions_at,exemptions}" bounds="trace length 8, 5 exemptions" sym="step, exemption index" enum="number of exemptions"
c16_transition_k!(c16_transition_8_k5, 8, 5, 12);
// @ob id=C16 tier=quick req=1 to=600 name=c16_transition_16_k4 funcs="ConstraintDivisor::{from_transition,degree,evaluate_exemptions_at,exemptions}" bounds="trace length 16, 4 exemptions" sym="step, exemption index" enum="number of exemptions"
c16_transition_k!(c16_transition_16_k4, 16, 4, 20);
// @ob id=C16 tier=quick req=1 to=600 name=c16_transition_16_k9 funcs="ConstraintDivisor::{from_transition,degree,evaluate_exemptions_at,exemptions}" bounds="trace length 16, 9 exemptions" sym="step, exemption index" enum="number of exemptions"
c16_transition_k!(c16_transition_16_k9, 16, 9, 20);
// @ob id=C16 tier=thorough req=1 to=1200 name=c16_transition_32_k3 funcs="ConstraintDivisor::{from_transition,degree,evaluate_exemptions_at,exemptions}" bounds="trace length 32, 3 exemptions" sym="step, exemption index" enum="number of exemptions"
c16_transition_k!(c16_transition_32_k3, 32, 3, 36);
// @ob id=C16 tier=thorough req=1 to=1200 name=c16_transition_64_k6 funcs="ConstraintDivisor::{from_transition,degree,evaluate_exemptions_at,exemptions}" bounds="trace length 64, 6 exemptions" sym="step, exemption index" enum="number of exemptions"
c16_transition_k!(c16_transition_64_k6, 64, 6, 68);

// ---- "ill-formed assertions are refused", for ALL constructor arguments: whenever a constructor RETURNS, its arguments are
// well-formed. The constructor's own panics are the expected refusals (expect=fail: they are reported as failed checks); the
// marker assertion below must never fail -- `forbid=` makes the runner treat exactly that check as the obligation.
// @ob id=C16 tier=quick req=1 to=300 expect=fail forbid="ACCEPTED-ILL-FORMED" refuse_in="validate_stride,>::sequence,>::periodic" funcs="Assertion::{periodic,sequence}" bounds="none (full usize range); sequences of up to 9 values" sym="column, first step, stride, number of values" desc="a periodic/sequence assertion that is constructed has a power-of-two stride >= 2, a first step below the stride and a power-of-two number of values"
#[kani::proof]
#[kani::unwind(12)]
#[kani::stub(alloc::fmt::format, nofmt)]
fn c16_constructed_is_wellformed() {
    let col: usize = kani::any();
    let f: usize = kani::any();
    let s: usize = kani::any();
    if kani::any() {
        let a = Assertion::periodic(col, f, s, T::ONE);
        assert!(s.is_power_of_two() && s >= 2 && f < s, "ACCEPTED-ILL-FORMED periodic assertion");
        assert!(a.first_step() == f && a.stride() == s && a.column() == col, "ACCEPTED-ILL-FORMED periodic accessors");
        kani::cover!(f + 1 == s);
        core::mem::forget(a);
    } else {
        let n: usize = kani::any();
        kani::assume(n <= 9);
        let mut values = Vec::new();
        let mut i = 0;
        while i < 9 { if i < n { values.push(T::ONE); } i += 1; }
        let a = Assertion::sequence(col, f, s, values);
        assert!(s.is_power_of_two() && s >= 2 && f < s && n >= 1 && n.is_power_of_two(), "ACCEPTED-ILL-FORMED sequence assertion");
        assert!(a.values().len() == n && a.first_step() == f, "ACCEPTED-ILL-FORMED sequence accessors");
        // a sequence of exactly one value names one cell: it is a single-step assertion (no stride), a longer one keeps its stride
        assert!(a.stride() == if n == 1 { 0 } else { s }, "ACCEPTED-ILL-FORMED sequence: stride of the constructed assertion");
        assert!(a.is_single() == (n == 1) && a.is_sequence() == (n > 1) && !a.is_periodic(), "ACCEPTED-ILL-FORMED sequence: kind of the constructed assertion");
        kani::cover!(n == 8);
        core::mem::forget(a);
    }
}

// the divisor of EVERY constructible periodic/sequence assertion (first step not pre-constrained by the harness) vanishes on
// exactly the steps first + j*stride
// @ob id=C16 tier=quick req=1 to=900 expect=fail forbid="DIVISOR-STEPS" refuse_in="validate_stride,>::sequence,>::periodic" funcs="Assertion::{periodic,sequence},ConstraintDivisor::{from_assertion,evaluate_at}" bounds="trace length 8" sym="kind, first step (0..=16), stride, step" desc="divisor of any constructible assertion vanishes exactly on first + j*stride; refused constructor arguments are the expected failures"
#[kani::proof]
#[kani::unwind(12)]
#[kani::stub(alloc::fmt::format, nofmt)]
fn c16_divisor_any_constructible_8() {
    let f: usize = kani::any();
    kani::assume(f <= 16);
    let ls: u32 = kani::any();
    kani::assume(ls <= 3);
    let s = 1usize << ls;
    let a = if kani::any() { Assertion::periodic(0, f, s, T::ONE) } else {
        kani::assume(s < 8);
        let count = 8 / s;
        let mut values = Vec::new();
        let mut i = 0;
        while i < 8 { if i < count { values.push(T::ONE); } i += 1; }
        Assertion::sequence(0, f, s, values)
    };
    if a.validate_trace_length(8).is_ok() {
        let d = ConstraintDivisor::<T>::from_assertion(&a, 8);
        let g = T::get_root_of_unity(3);
        let i: usize = kani::any();
        kani::assume(i < 8);
        let x = g.exp((i as u64).into());
        let named = i >= f && (i - f) % s == 0;
        assert!((d.evaluate_at(x) == T::ZERO) == named, "DIVISOR-STEPS: divisor vanishes on a step the assertion does not name (or misses one)");
        kani::cover!(named && f > 0);
        kani::cover!(!named);
        core::mem::forget(d);
    }
    core::mem::forget(a);
}

// ill-formed assertions are refused (documented panics): each twin must be violated
// @ob id=C16 tier=quick req=1 to=300 expect=fail desc="refusal witness: periodic assertion with first step >= stride panics"
#[kani::proof]
#[kani::unwind(4)]
#[kani::stub(alloc::fmt::format, nofmt)]
fn c16_refuse_first_step_ge_stride() {
    let f: usize = kani::any();
    kani::assume(f >= 4 && f < 100);
    let a = Assertion::periodic(0, f, 4, T::ONE);
    core::mem::forget(a);
}
// @ob id=C16 tier=quick req=1 to=300 funcs="Assertion::{periodic,sequence,validate_trace_length,validate_trace_width}" bounds="strides and counts up to 64" sym="stride, first step, trace length, column, width"
#[kani::proof]
#[kani::unwind(8)]
#[kani::stub(alloc::fmt::format, nofmt)]
fn c16_validation_rules() {
    // validate_trace_length / width accept exactly the documented shapes
    let step: usize = kani::any();
    let n: usize = kani::any();
    kani::assume(n <= 64 && step <= 100);
    let a = Assertion::single(3, step, T::ONE);
    assert!(a.validate_trace_length(n).is_ok() == (n.is_power_of_two() && step < n));
    let w: usize = kani::any();
    assert!(a.validate_trace_width(w).is_ok() == (3 < w));
    let ls: u32 = kani::any();
    kani::assume(ls >= 1 && ls <= 6);
    let stride = 1usize << ls;
    let first: usize = kani::any();
    kani::assume(first < stride);
    let p = Assertion::periodic(0, first, stride, T::ONE);
    assert!(p.validate_trace_length(n).is_ok() == (n.is_power_of_two() && stride <= n));
    let s = Assertion::sequence(0, first, stride, vec![T::ONE, T::ONE]);
    assert!(s.validate_trace_length(n).is_ok() == (n == 2 * stride));
    kani::cover!(true);
    core::mem::forget((a, p, s));
}
