//! C16: constraints are enforced on exactly the intended steps (generic code instantiated at the toy field F_257).
use air::{AirContext, Assertion, BoundaryConstraints, ConstraintDivisor, FieldExtension, ProofOptions, TraceInfo, TransitionConstraintDegree};
use math::{FieldElement, StarkField};

use crate::toy::T;
use crate::util::nofmt;

fn anyt() -> T { let v: u16 = kani::any(); kani::assume(v < 257); T(v) }

/// symbolic well-formed assertion for a trace of length N (kind, column, first step, stride symbolic).
/// returns (assertion, kind, first, stride) with stride = 0 for single assertions.
fn any_assertion<const N: usize>() -> (Assertion<T>, u8, usize, usize) {
    let kind: u8 = kani::any();
    kani::assume(kind < 3);
    let col: usize = kani::any();
    kani::assume(col < 2);
    let first: usize = kani::any();
    if kind == 0 {
        kani::assume(first < N);
        return (Assertion::single(col, first, T::ONE), 0, first, 0);
    }
    let ls: u32 = kani::any();
    kani::assume(ls >= 1 && ls <= 8);
    kani::assume((1usize << ls) <= N);
    let stride = 1usize << ls;
    kani::assume(first < stride);
    if kind == 1 {
        return (Assertion::periodic(col, first, stride, T::ONE), 1, first, stride);
    }
    // sequence: number of values = N / stride (must be > 1 to stay a sequence)
    kani::assume(stride < N);
    let count = N / stride;
    let mut values = Vec::new();
    let mut i = 0;
    while i < N { if i < count { values.push(T::ONE); } i += 1; }
    (Assertion::sequence(col, first, stride, values), 2, first, stride)
}
fn names(kind: u8, first: usize, stride: usize, s: usize) -> bool {
    if kind == 0 { s == first } else { s % stride == first }
}

macro_rules! c16_overlap {
    ($name:ident, $n:expr) => {
        #[kani::proof]
        #[kani::unwind(20)]
        #[kani::stub(alloc::fmt::format, nofmt)]
        fn $name() {
            let (a, ka, fa, sa) = any_assertion::<$n>();
            let (b, kb, fb, sb) = any_assertion::<$n>();
            assert!(a.validate_trace_length($n).is_ok() && b.validate_trace_length($n).is_ok());
            let mut common = false;
            let mut s = 0;
            while s < $n { if names(ka, fa, sa, s) && names(kb, fb, sb, s) { common = true; } s += 1; }
            let expected = a.column() == b.column() && common;
            assert!(a.overlaps_with(&b) == expected);
            assert!(b.overlaps_with(&a) == expected);
            kani::cover!(expected);
            kani::cover!(!expected && a.column() == b.column());
            core::mem::forget((a, b));
        }
    };
}
// @ob id=C16 tier=quick req=1 to=900 name=c16_overlap_8 funcs="Assertion::{single,periodic,sequence,overlaps_with,validate_trace_length}" bounds="trace length 8; 2 columns" sym="kind, column, first step, stride of both assertions"
c16_overlap!(c16_overlap_8, 8);
// @ob id=C16 tier=quick req=1 to=900 name=c16_overlap_16 funcs="Assertion::{single,periodic,sequence,overlaps_with,validate_trace_length}" bounds="trace length 16; 2 columns" sym="kind, column, first step, stride of both assertions"
c16_overlap!(c16_overlap_16, 16);

macro_rules! c16_transition {
    ($name:ident, $n:expr, $unwind:expr) => {
        #[kani::proof]
        #[kani::unwind($unwind)]
        #[kani::stub(alloc::fmt::format, nofmt)]
        fn $name() {
            let k: usize = kani::any();
            kani::assume(k >= 1 && k <= $n / 2 + 1);
            let d = ConstraintDivisor::<T>::from_transition($n, k);
            assert!(d.numerator().len() == 1 && d.numerator()[0].0 == $n && d.numerator()[0].1 == T::ONE);
            assert!(d.exemptions().len() == k);
            assert!(d.degree() == $n - k);
            let g = T::get_root_of_unity(($n as usize).ilog2());
            let i: usize = kani::any();
            kani::assume(i < $n);
            let x = g.exp((i as u64).into());
            // numerator x^n - 1 vanishes on the whole trace domain ...
            assert!(x.exp(($n as u64).into()) == T::ONE);
            // ... and the exemption product vanishes exactly on the last k steps
            let ex = d.evaluate_exemptions_at(x);
            assert!((ex == T::ZERO) == (i >= $n - k));
            kani::cover!(i == $n - k);
            kani::cover!(k == $n / 2 + 1);
            core::mem::forget(d);
        }
    };
}
// @ob id=C16 tier=quick req=1 to=900 name=c16_transition_8 funcs="ConstraintDivisor::{from_transition,degree,evaluate_exemptions_at,numerator,exemptions}" bounds="trace length 8" sym="number of exemptions 1..=n/2+1, step"
c16_transition!(c16_transition_8, 8, 12);
// @ob id=C16 tier=quick req=1 to=900 name=c16_transition_16 funcs="ConstraintDivisor::{from_transition,degree,evaluate_exemptions_at,numerator,exemptions}" bounds="trace length 16" sym="number of exemptions 1..=n/2+1, step"
c16_transition!(c16_transition_16, 16, 20);
// @ob id=C16 tier=thorough req=1 to=3000 name=c16_transition_32 funcs="ConstraintDivisor::{from_transition,degree,evaluate_exemptions_at}" bounds="trace length 32" sym="number of exemptions, step"
c16_transition!(c16_transition_32, 32, 36);

macro_rules! c16_assertion_divisor {
    ($name:ident, $n:expr, $unwind:expr) => {
        #[kani::proof]
        #[kani::unwind($unwind)]
        #[kani::stub(alloc::fmt::format, nofmt)]
        fn $name() {
            let (a, ka, fa, sa) = any_assertion::<$n>();
            let d = ConstraintDivisor::<T>::from_assertion(&a, $n);
            assert!(d.numerator().len() == 1 && d.exemptions().is_empty());
            let (deg, off) = d.numerator()[0];
            assert!(deg == a.get_num_steps($n));
            let g = T::get_root_of_unity(($n as usize).ilog2());
            let i: usize = kani::any();
            kani::assume(i < $n);
            let x = g.exp((i as u64).into());
            // divisor x^deg - off vanishes at step i  <=>  the assertion names step i
            let vanishes = x.exp((deg as u64).into()) == off;
            assert!(vanishes == names(ka, fa, sa, i));
            assert!((d.evaluate_at(x) == T::ZERO) == vanishes);
            kani::cover!(vanishes && ka == 2);
            kani::cover!(!vanishes && ka == 1 && fa > 0);
            core::mem::forget((a, d));
        }
    };
}
// @ob id=C16 tier=quick req=1 to=900 name=c16_assertion_divisor_8 funcs="ConstraintDivisor::{from_assertion,evaluate_at},Assertion::get_num_steps" bounds="trace length 8" sym="assertion kind, column, first step, stride; step"
c16_assertion_divisor!(c16_assertion_divisor_8, 8, 12);
// @ob id=C16 tier=quick req=1 to=1200 name=c16_assertion_divisor_16 funcs="ConstraintDivisor::{from_assertion,evaluate_at},Assertion::get_num_steps" bounds="trace length 16" sym="assertion kind, column, first step, stride; step"
c16_assertion_divisor!(c16_assertion_divisor_16, 16, 20);

// ill-formed assertions are refused (documented panics): each twin must be violated
// @ob id=C16 tier=quick req=1 to=300 expect=fail desc="refusal witness: periodic assertion with first step >= stride panics"
#[kani::proof]
#[kani::unwind(4)]
#[kani::stub(alloc::fmt::format, nofmt)]
fn c16_refuse_first_step_ge_stride() {
    let f: usize = kani::any();
    kani::assume(f >= 4 && f < 100);
    let a = Assertion::periodic(0, f, 4, T::ONE);
    core::mem::forget(a);
}
// @ob id=C16 tier=quick req=1 to=300 funcs="Assertion::{periodic,sequence,validate_trace_length,validate_trace_width}" bounds="strides and counts up to 64" sym="stride, first step, trace length, column, width"
#[kani::proof]
#[kani::unwind(8)]
#[kani::stub(alloc::fmt::format, nofmt)]
fn c16_validation_rules() {
    // validate_trace_length / width accept exactly the documented shapes
    let step: usize = kani::any();
    let n: usize = kani::any();
    kani::assume(n <= 64 && step <= 100);
    let a = Assertion::single(3, step, T::ONE);
    assert!(a.validate_trace_length(n).is_ok() == (n.is_power_of_two() && step < n));
    let w: usize = kani::any();
    assert!(a.validate_trace_width(w).is_ok() == (3 < w));
    let ls: u32 = kani::any();
    kani::assume(ls >= 1 && ls <= 6);
    let stride = 1usize << ls;
    let first: usize = kani::any();
    kani::assume(first < stride);
    let p = Assertion::periodic(0, first, stride, T::ONE);
    assert!(p.validate_trace_length(n).is_ok() == (n.is_power_of_two() && stride <= n));
    let s = Assertion::sequence(0, first, stride, vec![T::ONE, T::ONE]);
    assert!(s.validate_trace_length(n).is_ok() == (n == 2 * stride));
    kani::cover!(true);
    core::mem::forget((a, p, s));
}
