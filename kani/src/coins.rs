//! Harness-library public coins (trusted, listed in evidence). They are substituted for the `RandomCoin`
//! type parameter of the repo's generic prover/verifier code:
//!  * `CtrCoin`: deterministic, cheap (no rejection loop, no multiplications): lets a whole FRI verifier run
//!    stay concrete; honest toy proofs are produced natively by the repo's prover with the same coin.
//!  * `SpecCoin`: transparent transcript recorder for C04: the seed is the injective `PairHash128` digest of
//!    everything absorbed so far; draws are counted and return values that are a function of (seed, counter).
use crypto::{ElementHasher, Hasher, RandomCoin, RandomCoinError};
use math::FieldElement;

use crate::hashers::{PairHash128, PD128};
use crate::toy::T;

fn squeeze(seed: PD128, ctr: u64) -> u16 {
    let s = (seed.0 as u64) ^ ((seed.0 >> 64) as u64);
    let m = s ^ (s >> 17) ^ (s >> 31) ^ (s >> 47);
    (((m.wrapping_add(ctr.wrapping_mul(7))) & 0xff) + 1) as u16 // 1..=256: a non-zero element of F_257
}

pub struct CtrCoin {
    pub seed: PD128,
    pub ctr: u64,
}
impl RandomCoin for CtrCoin {
    type BaseField = T;
    type Hasher = PairHash128;
    fn new(seed: &[T]) -> Self { CtrCoin { seed: PairHash128::hash_elements(seed), ctr: 0 } }
    fn reseed(&mut self, data: PD128) { self.seed = PairHash128::merge(&[self.seed, data]); self.ctr = 0; }
    fn check_leading_zeros(&self, _value: u64) -> u32 { 0 }
    fn draw<E: FieldElement<BaseField = T>>(&mut self) -> Result<E, RandomCoinError> {
        self.ctr += 1;
        Ok(E::from(T(squeeze(self.seed, self.ctr))))
    }
    fn draw_integers(&mut self, num_values: usize, domain_size: usize, nonce: u64) -> Result<Vec<usize>, RandomCoinError> {
        self.seed = PairHash128::merge_with_int(self.seed, nonce);
        self.ctr = 0;
        let mut r = Vec::with_capacity(num_values);
        let mut i = 0;
        while i < num_values {
            self.ctr += 1;
            r.push((squeeze(self.seed, self.ctr) as usize).wrapping_mul(5).wrapping_add(i) & (domain_size - 1));
            i += 1;
        }
        Ok(r)
    }
}

/// what a `SpecCoin` has been asked, in order (fixed capacity: no heap, cheap for CBMC)
#[derive(Copy, Clone, PartialEq, Eq, Debug)]
pub enum Ev {
    None,
    Reseed(PD128),
    Draw,
    DrawInts(usize, usize, u64),
    Pow(u64),
}
pub const LOG: usize = 24;
pub struct SpecCoin {
    pub seed: PD128,
    pub ctr: u64,
    pub log: [Ev; LOG],
    pub n: usize,
}
impl SpecCoin {
    fn push(&mut self, e: Ev) { if self.n < LOG { self.log[self.n] = e; } self.n += 1; }
}
impl RandomCoin for SpecCoin {
    type BaseField = T;
    type Hasher = PairHash128;
    fn new(seed: &[T]) -> Self { SpecCoin { seed: PairHash128::hash_elements(seed), ctr: 0, log: [Ev::None; LOG], n: 0 } }
    fn reseed(&mut self, data: PD128) { self.seed = PairHash128::merge(&[self.seed, data]); self.ctr = 0; self.push(Ev::Reseed(data)); }
    fn check_leading_zeros(&self, value: u64) -> u32 { (value & 31) as u32 }
    fn draw<E: FieldElement<BaseField = T>>(&mut self) -> Result<E, RandomCoinError> {
        self.ctr += 1;
        self.push(Ev::Draw);
        Ok(E::from(T(squeeze(self.seed, self.ctr))))
    }
    fn draw_integers(&mut self, num_values: usize, domain_size: usize, nonce: u64) -> Result<Vec<usize>, RandomCoinError> {
        self.push(Ev::DrawInts(num_values, domain_size, nonce));
        let mut r = Vec::with_capacity(num_values);
        let mut i = 0;
        while i < num_values { r.push(i & (domain_size - 1)); i += 1; }
        Ok(r)
    }
}
