//! C04 (channel layer): every challenge is drawn from a coin that has already absorbed the context, the public
//! inputs and every earlier prover message; the absorbed values are the ones carried in the proof.
//! A transparent recording coin (`SpecCoin`) is substituted for the `RandomCoin` type parameter of the REAL
//! `ProverChannel`, `fri::DefaultProverChannel`, `FriProver::build_layers` and `FriVerifier::new`; messages are
//! symbolic. The order of the calls inside `Prover::generate_proof` / `verifier::perform_verification` is outside
//! (whole-run behaviour).
use air::proof::{Context, Queries, TraceOodFrame};
use air::{Air, AirContext, Assertion, EvaluationFrame, FieldExtension, ProofOptions, TraceInfo, TransitionConstraintDegree};
use crypto::{BatchMerkleProof, ElementHasher, Hasher, RandomCoin};
use fri::{FriOptions, FriProof, FriProver, FriVerifier};
use math::{FieldElement, ToElements};
use prover::verif_hooks::ProverChannel;
use utils::{Deserializable, SliceReader};

use crate::coins::{Ev, SpecCoin};
use crate::hashers::{PairHash128 as PH, PD128 as PD};
use crate::toy::{P, T};
use crate::util::nofmt;

pub struct ToyAir { ctx: AirContext<T> }
impl Air for ToyAir {
    type BaseField = T;
    type PublicInputs = T;
    type GkrProof = ();
    type GkrVerifier = ();
    fn new(trace_info: TraceInfo, _pi: T, options: ProofOptions) -> Self {
        ToyAir { ctx: AirContext::new(trace_info, vec![TransitionConstraintDegree::new(1)], 1, options) }
    }
    fn context(&self) -> &AirContext<T> { &self.ctx }
    fn evaluate_transition<E: FieldElement<BaseField = T>>(&self, frame: &EvaluationFrame<E>, _p: &[E], result: &mut [E]) {
        result[0] = frame.next()[0] - frame.current()[0];
    }
    fn get_assertions(&self) -> Vec<Assertion<T>> { vec![Assertion::single(0, 0, T::ONE)] }
}

fn el() -> T { let v: u16 = kani::any(); kani::assume((v as u32) < P); T(v) }
fn dg() -> PD { PD(kani::any()) }

const GRIND: u32 = 3;
fn opts() -> ProofOptions { ProofOptions::new(2, 2, GRIND, FieldExtension::None, 2, 1) }

// @ob id=C04 tier=quick req=1 to=1500 fs=1 funcs="ProverChannel::new,commit_trace,get_constraint_composition_coeffs,commit_constraints,get_ood_point,send_ood_trace_states,send_ood_constraint_evaluations,get_deep_composition_coeffs,commit_fri_layer,draw_fri_alpha,grind_query_seed,get_query_positions,build_proof,Context::to_elements,OodFrame::set_trace_states,Commitments::add" bounds="toy AIR (1 column, 8 steps, 1 transition constraint, 1 assertion), 2 queries, blowup 2, grinding 3, 2 FRI commitments; E = base field" sym="public input, trace/constraint/FRI commitments (arbitrary 128-bit digests), all OOD frame elements and evaluations" desc="the coin is seeded with H(context elements || public inputs); every commit_*/send_* absorbs exactly its message, in order, before the next draw; the nonce meets the grinding factor and is the one used for the query positions; the proof carries exactly the absorbed commitments, OOD values and nonce"
#[kani::proof]
#[kani::unwind(40)]
#[kani::stub(alloc::fmt::format, nofmt)]
fn c04_prover_channel_transcript() {
    let air = ToyAir::new(TraceInfo::new(1, 8), T::ONE, opts());
    let pv = el();
    let mut ch = ProverChannel::<ToyAir, T, PH, SpecCoin>::new(&air, vec![pv]);
    let mut seed_elems: Vec<T> = Context::new::<T>(TraceInfo::new(1, 8), opts()).to_elements();
    seed_elems.push(pv);
    assert!(seed_elems.len() * 9 + 1 <= 121); // inside PairHash128's injectivity budget
    assert!(ch.public_coin().seed == PH::hash_elements(&seed_elems));
    assert!(ch.public_coin().n == 0);

    let d1 = dg();
    ch.commit_trace(d1);
    let cc = ch.get_constraint_composition_coeffs();
    assert!(cc.transition.len() == 1 && cc.boundary.len() == 1);
    let d2 = dg();
    ch.commit_constraints(d2);
    let _z: T = ch.get_ood_point();
    let (c0, n0) = (el(), el());
    let frame = TraceOodFrame::new(vec![c0], vec![n0], 1, None);
    ch.send_ood_trace_states(&frame);
    let ev = el();
    ch.send_ood_constraint_evaluations(&[ev]);
    let dc = ch.get_deep_composition_coeffs();
    let ndeep = dc.trace.len() + dc.constraints.len();
    assert!(dc.trace.len() == 1 && dc.constraints.len() == air.context().num_constraint_composition_columns());
    let (f0, f1) = (dg(), dg());
    <ProverChannel<ToyAir, T, PH, SpecCoin> as fri::ProverChannel<T>>::commit_fri_layer(&mut ch, f0);
    let _a0: T = <ProverChannel<ToyAir, T, PH, SpecCoin> as fri::ProverChannel<T>>::draw_fri_alpha(&mut ch);
    <ProverChannel<ToyAir, T, PH, SpecCoin> as fri::ProverChannel<T>>::commit_fri_layer(&mut ch, f1);
    let _a1: T = <ProverChannel<ToyAir, T, PH, SpecCoin> as fri::ProverChannel<T>>::draw_fri_alpha(&mut ch);
    ch.grind_query_seed();
    let pos = ch.get_query_positions();
    assert!(pos.len() <= 2);

    // ---- the observed sequence of coin operations
    let log = ch.public_coin().log;
    let n = ch.public_coin().n;
    let mut k = 0;
    assert!(log[k] == Ev::Reseed(d1)); k += 1;
    assert!(log[k] == Ev::Draw && log[k + 1] == Ev::Draw); k += 2;
    assert!(log[k] == Ev::Reseed(d2)); k += 1;
    assert!(log[k] == Ev::Draw); k += 1;
    assert!(log[k] == Ev::Reseed(PH::hash_elements(&[c0, n0]))); k += 1;
    assert!(log[k] == Ev::Reseed(PH::hash_elements(&[ev]))); k += 1;
    let mut j = 0; while j < ndeep { assert!(log[k] == Ev::Draw); k += 1; j += 1; }
    assert!(log[k] == Ev::Reseed(f0) && log[k + 1] == Ev::Draw); k += 2;
    assert!(log[k] == Ev::Reseed(f1) && log[k + 1] == Ev::Draw); k += 2;
    let nonce = match log[k] { Ev::DrawInts(nq, dom, nonce) => { assert!(nq == 2 && dom == 16); nonce }, _ => { assert!(false); 0 } };
    k += 1;
    assert!(k == n);
    // proof-of-work: the stored nonce is one whose measure meets the grinding factor (SpecCoin's measure is nonce & 31)
    assert!(nonce >= 1 && (nonce & 31) as u32 >= GRIND);

    // ---- the proof carries exactly what was absorbed
    let q = || Queries::read_from(&mut SliceReader::new(&[0u8; 8])).unwrap();
    let proof = ch.build_proof(vec![q()], q(), FriProof::new_dummy(), pos.len(), None);
    assert!(proof.pow_nonce == nonce);
    let (tr, cr, fr) = proof.commitments.clone().parse::<PH>(1, 2).unwrap();
    assert!(tr.len() == 1 && tr[0] == d1 && cr == d2 && fr.len() == 2 && fr[0] == f0 && fr[1] == f1);
    let (fr2, evs) = proof.ood_frame.clone().parse::<T>(1, 0, 1).unwrap();
    assert!(fr2.current_row().len() == 1 && fr2.current_row()[0] == c0 && fr2.next_row()[0] == n0);
    assert!(evs.len() == 1 && evs[0] == ev);
    kani::cover!(true);
    core::mem::forget(proof);
}

// @ob id=C04 tier=quick req=1 to=900 fs=1 funcs="fri::DefaultProverChannel::new,commit_fri_layer,draw_fri_alpha,draw_query_positions,layer_commitments" bounds="domain 16, 3 queries, 2 commitments" sym="commitments, nonce" desc="fri's own prover channel: commitments are absorbed in order, each before the alpha that follows; query positions are drawn with the given nonce over the full domain"
#[kani::proof]
#[kani::unwind(12)]
#[kani::stub(alloc::fmt::format, nofmt)]
fn c04_fri_default_prover_channel() {
    use fri::ProverChannel as _;
    let mut ch = fri::DefaultProverChannel::<T, PH, SpecCoin>::new(16, 3);
    let (f0, f1) = (dg(), dg());
    ch.commit_fri_layer(f0);
    let _a: T = ch.draw_fri_alpha();
    ch.commit_fri_layer(f1);
    let _b: T = ch.draw_fri_alpha();
    let nonce: u64 = kani::any();
    let pos = ch.draw_query_positions(nonce);
    assert!(pos.len() == 3);
    assert!(ch.layer_commitments().len() == 2 && ch.layer_commitments()[0] == f0 && ch.layer_commitments()[1] == f1);
    kani::cover!(true);
    // the coin is private: its behaviour is observed through a second channel fed the same messages in a different order
    let mut ch2 = fri::DefaultProverChannel::<T, PH, SpecCoin>::new(16, 3);
    ch2.commit_fri_layer(f0);
    let a2: T = ch2.draw_fri_alpha();
    // SpecCoin's draw is a function of (seed, counter): same history => same value
    assert!(a2 == _a);
}

/// fri prover channel that records the order of commitments and draws
struct RecCh { ev: [u8; 12], dig: [PD; 12], n: usize }
impl fri::ProverChannel<T> for RecCh {
    type Hasher = PH;
    fn commit_fri_layer(&mut self, root: PD) { if self.n < 12 { self.ev[self.n] = b'C'; self.dig[self.n] = root; } self.n += 1; }
    fn draw_fri_alpha(&mut self) -> T { if self.n < 12 { self.ev[self.n] = b'D'; } self.n += 1; T(3 + self.n as u16) }
}

// @ob id=C04 tier=quick req=1 to=1500 fs=1 funcs="FriProver::build_layers,FriProver::build_layer,FriProver::set_remainder,apply_drp,MerkleTree::new" bounds="F_257, domain 16, folding 2, blowup 2, remainder max degree 1 (2 layers + remainder); evaluations fixed except one" sym="one evaluation of the input function" desc="the FRI prover sends each layer commitment before it asks for that layer's alpha, and the remainder commitment last (C, D, C, D, C)"
#[kani::proof]
#[kani::unwind(20)]
#[kani::stub(alloc::fmt::format, nofmt)]
fn c04_fri_prover_commit_before_alpha() {
    let mut evals: Vec<T> = Vec::new();
    let mut i = 0u32; while i < 16 { evals.push(T::new(i * i * 7 + 11 * i + 5)); i += 1; }
    evals[0] = el();
    let mut ch = RecCh { ev: [0; 12], dig: [PD(0); 12], n: 0 };
    let mut prover = FriProver::<T, T, RecCh, PH>::new(FriOptions::new(2, 2, 1));
    prover.build_layers(&mut ch, evals);
    assert!(ch.n == 5);
    assert!(ch.ev[0] == b'C' && ch.ev[1] == b'D' && ch.ev[2] == b'C' && ch.ev[3] == b'D' && ch.ev[4] == b'C');
    kani::cover!(true);
    core::mem::forget(prover);
}

struct StubCh { commits: Vec<PD> }
impl fri::VerifierChannel<T> for StubCh {
    type Hasher = PH;
    fn read_fri_num_partitions(&self) -> usize { 1 }
    fn read_fri_layer_commitments(&mut self) -> Vec<PD> { self.commits.clone() }
    fn take_next_fri_layer_proof(&mut self) -> BatchMerkleProof<PH> { unreachable!() }
    fn take_next_fri_layer_queries(&mut self) -> Vec<T> { unreachable!() }
    fn take_fri_remainder(&mut self) -> Vec<T> { unreachable!() }
}

// @ob id=C04 tier=quick req=1 to=900 fs=1 funcs="FriVerifier::new" bounds="max degree 7, blowup 2, folding 2; 3 layer commitments" sym="the three commitments" desc="the FRI verifier absorbs each layer commitment and then draws that layer's alpha, in order (Reseed c0, Draw, Reseed c1, Draw, Reseed c2, Draw) and nothing else"
#[kani::proof]
#[kani::unwind(12)]
#[kani::stub(alloc::fmt::format, nofmt)]
fn c04_fri_verifier_new_transcript() {
    let (c0, c1, c2) = (dg(), dg(), dg());
    let mut ch = StubCh { commits: vec![c0, c1, c2] };
    let mut coin = SpecCoin::new(&[]);
    let v = FriVerifier::<T, StubCh, PH, SpecCoin>::new(&mut ch, &mut coin, FriOptions::new(2, 2, 1), 7);
    assert!(v.is_ok());
    assert!(coin.n == 6);
    assert!(coin.log[0] == Ev::Reseed(c0) && coin.log[1] == Ev::Draw);
    assert!(coin.log[2] == Ev::Reseed(c1) && coin.log[3] == Ev::Draw);
    assert!(coin.log[4] == Ev::Reseed(c2) && coin.log[5] == Ev::Draw);
    kani::cover!(true);
    core::mem::forget(v);
}

// @ob id=C04 tier=quick req=1 to=600 expect=fail desc="vacuity twin: the end of the FRI-verifier transcript harness is reachable"
#[kani::proof]
#[kani::unwind(12)]
#[kani::stub(alloc::fmt::format, nofmt)]
fn c04_vacuity_twin() {
    let (c0, c1) = (dg(), dg());
    let mut ch = StubCh { commits: vec![c0, c1] };
    let mut coin = SpecCoin::new(&[]);
    let v = FriVerifier::<T, StubCh, PH, SpecCoin>::new(&mut ch, &mut coin, FriOptions::new(2, 2, 1), 3);
    if v.is_ok() && coin.n == 4 { assert!(false); }
    core::mem::forget(v);
}
