//! C04 (channel layer): every challenge is drawn from a coin that has already absorbed the context, the public
//! inputs and every earlier prover message; the absorbed values are the ones carried in the proof.
//! A transparent recording coin (`SpecCoin`) is substituted for the `RandomCoin` type parameter of the REAL
//! `ProverChannel`, `fri::DefaultProverChannel`, `FriProver::build_layers` and `FriVerifier::new`; messages are
//! symbolic. The order of the calls inside `Prover::generate_proof` / `verifier::perform_verification` is outside
//! (whole-run behaviour).
use air::proof::{Context, Queries, TraceOodFrame};
use air::{Air, AirContext, Assertion, EvaluationFrame, FieldExtension, ProofOptions, TraceInfo, TransitionConstraintDegree};
use crypto::{BatchMerkleProof, ElementHasher, Hasher, RandomCoin};
use fri::{FriOptions, FriProof, FriProver, FriVerifier};
use math::{FieldElement, ToElements};
use prover::verif_hooks::ProverChannel;
use utils::{Deserializable, SliceReader};

use crate::coins::{Ev, SpecCoin};
use crate::hashers::{PairHash128 as PH, PD128 as PD};
use crate::toy::{P, T};
use crate::util::nofmt;

pub struct ToyAir { ctx: AirContext<T> }
impl Air for ToyAir {
    type BaseField = T;
    type PublicInputs = T;
    type GkrProof = ();
    type GkrVerifier = ();
    fn new(trace_info: TraceInfo, _pi: T, options: ProofOptions) -> Self {
        ToyAir { ctx: AirContext::new(trace_info, vec![TransitionConstraintDegree::new(1)], 1, options) }
    }
    fn context(&self) -> &AirContext<T> { &self.ctx }
    fn evaluate_transition<E: FieldElement<BaseField = T>>(&self, frame: &EvaluationFrame<E>, _p: &[E], result: &mut [E]) {
        result[0] = frame.next()[0] - frame.current()[0];
    }
    fn get_assertions(&self) -> Vec<Assertion<T>> { vec![Assertion::single(0, 0, T::ONE)] }
}

fn el() -> T { let v: u16 = kani::any(); kani::assume((v as u32) < P); T(v) }
fn dg() -> PD { PD(kani::any()) }

const GRIND: u32 = 3;
fn opts() -> ProofOptions { ProofOptions::new(2, 2, GRIND, FieldExtension::None, 2, 1) }


// ---- the seed elements determine the context: two proof contexts that differ in any parameter the verifier relies on (trace shape,
// trace length up to 2^31, every proof option) are mapped to different element vectors, so they seed the coin differently.
// Decided at the 128-bit field, whose elements hold a u32 without reduction (no field multiplication involved).
fn any_trace_info() -> (TraceInfo, [usize; 4]) {
    let w: usize = kani::any(); let a: usize = kani::any(); let r: usize = kani::any(); let k: u32 = kani::any();
    kani::assume(w >= 1 && w <= 255 && a <= 255 && w + a <= 255 && r <= 255 && k >= 3 && k <= 31);
    kani::assume(a > 0 || r == 0);
    (TraceInfo::new_multi_segment(w, a, r, 1usize << k, Vec::new()), [w, a, r, k as usize])
}
// @ob id=C04 tier=quick req=1 to=900 funcs="TraceInfo::to_elements,ProofOptions::to_elements,TraceInfo::new_multi_segment,ProofOptions::new" bounds="trace widths 1..=255, lengths 2^3..2^31, no metadata; every ProofOptions field over its full range; elements over the 128-bit field" sym="both parameter tuples" desc="to_elements is injective on trace descriptions and on proof options: equal seed elements imply equal parameters"
#[kani::proof]
#[kani::unwind(8)]
#[kani::stub(alloc::fmt::format, nofmt)]
fn c04_context_elements_injective() {
    use math::fields::f128::BaseElement as B;
    let (t1, p1) = any_trace_info();
    let (t2, p2) = any_trace_info();
    let e1: Vec<B> = t1.to_elements();
    let e2: Vec<B> = t2.to_elements();
    assert!(e1.len() == 2 && e2.len() == 2);
    if e1[0] == e2[0] && e1[1] == e2[1] { assert!(p1[0] == p2[0] && p1[1] == p2[1] && p1[2] == p2[2] && p1[3] == p2[3]); }
    // the trace length itself is recoverable from the second element
    assert!(e1[1] == B::new(1u128 << p1[3]));
    let q: [usize; 2] = kani::any(); let lb: [u32; 2] = kani::any(); let g: [u32; 2] = kani::any(); let x: [u8; 2] = kani::any();
    let lf: [u32; 2] = kani::any(); let rl: [u32; 2] = kani::any();
    let mut o: Vec<Vec<B>> = Vec::new();
    let mut i = 0;
    while i < 2 {
        kani::assume(q[i] >= 1 && q[i] <= 255 && lb[i] >= 1 && lb[i] <= 7 && g[i] <= 32 && x[i] >= 1 && x[i] <= 3 && lf[i] >= 1 && lf[i] <= 4 && rl[i] <= 8);
        let ext = match x[i] { 1 => FieldExtension::None, 2 => FieldExtension::Quadratic, _ => FieldExtension::Cubic };
        o.push(ProofOptions::new(q[i], 1usize << lb[i], g[i], ext, 1usize << lf[i], (1usize << rl[i]) - 1).to_elements());
        i += 1;
    }
    assert!(o[0].len() == 4 && o[1].len() == 4);
    if o[0][0] == o[1][0] && o[0][1] == o[1][1] && o[0][2] == o[1][2] && o[0][3] == o[1][3] {
        assert!(q[0] == q[1] && lb[0] == lb[1] && g[0] == g[1] && x[0] == x[1] && lf[0] == lf[1] && rl[0] == rl[1]);
    }
    kani::cover!(p1[3] == 31 && p2[3] == 16);
    core::mem::forget((t1, t2, e1, e2, o));
}

type PC<'a> = ProverChannel<'a, ToyAir, T, PH, SpecCoin>;
const B_PC: &str = "";

// @ob id=C04 tier=quick req=1 to=900 fs=1 funcs="ProverChannel::new,Context::new,Context::to_elements,TraceInfo::to_elements,ProofOptions::to_elements" bounds="toy AIR (1 column, 8 steps), 2 queries, blowup 2, grinding 3; E = base field" sym="public input" desc="the coin is seeded with H(context elements || public inputs) and nothing has been drawn or absorbed yet"
#[kani::proof]
#[kani::unwind(40)]
#[kani::stub(alloc::fmt::format, nofmt)]
fn c04_prover_channel_seed() {
    let air = ToyAir::new(TraceInfo::new(1, 8), T::ONE, opts());
    let pv = el();
    let mut ch = PC::new(&air, vec![pv]);
    let mut seed_elems: Vec<T> = Context::new::<T>(TraceInfo::new(1, 8), opts()).to_elements();
    seed_elems.push(pv);
    assert!(seed_elems.len() * 9 + 1 <= 121); // inside PairHash128's injectivity budget
    assert!(ch.public_coin().seed == PH::hash_elements(&seed_elems));
    assert!(ch.public_coin().n == 0 && ch.public_coin().ctr == 0);
    kani::cover!(true);
    core::mem::forget(ch);
}

// @ob id=C04 tier=quick req=1 to=1500 fs=1 funcs="ProverChannel::commit_trace,get_constraint_composition_coeffs,commit_constraints,get_ood_point,Air::get_constraint_composition_coefficients" bounds="toy AIR (1 column, 8 steps, 1 transition constraint, 1 assertion); E = base field" sym="trace and constraint commitments (arbitrary 128-bit digests)" desc="Reseed(trace root) precedes the composition-coefficient draws (one per constraint), Reseed(constraint root) precedes the draw of the OOD point; nothing else touches the coin"
#[kani::proof]
#[kani::unwind(40)]
#[kani::stub(alloc::fmt::format, nofmt)]
fn c04_prover_channel_commit_phase() {
    let air = ToyAir::new(TraceInfo::new(1, 8), T::ONE, opts());
    let mut ch = PC::new(&air, vec![T::ONE]);
    let d1 = dg();
    ch.commit_trace(d1);
    let cc = ch.get_constraint_composition_coeffs();
    assert!(cc.transition.len() == 1 && cc.boundary.len() == 1);
    let d2 = dg();
    ch.commit_constraints(d2);
    let _z: T = ch.get_ood_point();
    let c = ch.public_coin();
    assert!(c.n == 5);
    assert!(c.log[0] == Ev::Reseed(d1) && c.log[1] == Ev::Draw && c.log[2] == Ev::Draw);
    assert!(c.log[3] == Ev::Reseed(d2) && c.log[4] == Ev::Draw);
    kani::cover!(true);
    core::mem::forget(cc);
    core::mem::forget(ch);
}

// @ob id=C04 tier=quick req=1 to=1500 fs=1 funcs="ProverChannel::send_ood_trace_states,send_ood_constraint_evaluations,get_deep_composition_coeffs,OodFrame::set_trace_states,TraceOodFrame::to_trace_states,Air::get_deep_composition_coefficients" bounds="toy AIR (1 column); OOD frame of 1 column (current, next), 1 constraint evaluation; E = base field" sym="all OOD frame elements and the OOD constraint evaluation" desc="Reseed(H(ood trace states)) then Reseed(H(ood constraint evaluations)) precede the DEEP coefficient draws (one per trace column and composition column)"
#[kani::proof]
#[kani::unwind(12)]
#[kani::stub(alloc::fmt::format, nofmt)]
fn c04_prover_channel_ood_phase() {
    let air = ToyAir::new(TraceInfo::new(1, 8), T::ONE, opts());
    let mut ch = PC::new(&air, vec![T::ONE]);
    let (c0, n0) = (el(), el());
    let frame = TraceOodFrame::new(vec![c0], vec![n0], 1, None);
    ch.send_ood_trace_states(&frame);
    let ev = el();
    ch.send_ood_constraint_evaluations(&[ev]);
    let dc = ch.get_deep_composition_coeffs();
    let ndeep = dc.trace.len() + dc.constraints.len();
    assert!(dc.trace.len() == 1 && dc.constraints.len() == air.context().num_constraint_composition_columns());
    let c = ch.public_coin();
    assert!(c.log[0] == Ev::Reseed(PH::hash_elements(&[c0, n0])));
    assert!(c.log[1] == Ev::Reseed(PH::hash_elements(&[ev])));
    let mut j = 0; while j < ndeep { assert!(c.log[2 + j] == Ev::Draw); j += 1; }
    assert!(c.n == 2 + ndeep);
    kani::cover!(true);
    core::mem::forget(dc);
    core::mem::forget(ch);
}

// @ob id=C04 tier=quick req=1 to=1500 fs=1 funcs="ProverChannel::send_ood_trace_states,OodFrame::set_trace_states,TraceOodFrame::to_trace_states,TraceOodFrame::hash" bounds="OOD frame of 2 columns (1 main + the Lagrange-kernel aux column) with a Lagrange-kernel frame of 2 values" sym="all 6 OOD trace values" desc="prover side: the digest absorbed for the OOD trace frame is H(every OOD trace value carried in the proof: current/next interleaved per column, then the Lagrange-kernel frame); verifier side: TraceOodFrame::hash of the same frame is the same digest"
#[kani::proof]
#[kani::unwind(12)]
#[kani::stub(alloc::fmt::format, nofmt)]
fn c04_ood_frame_with_lagrange_absorbed() {
    use air::LagrangeKernelEvaluationFrame;
    let air = ToyAir::new(TraceInfo::new(1, 8), T::ONE, opts());
    let mut ch = PC::new(&air, vec![T::ONE]);
    let (c0, c1, n0, n1, l0, l1) = (el(), el(), el(), el(), el(), el());
    let frame = TraceOodFrame::new(vec![c0, c1], vec![n0, n1], 1, Some(LagrangeKernelEvaluationFrame::new(vec![l0, l1])));
    ch.send_ood_trace_states(&frame);
    let want = PH::hash_elements(&[c0, n0, c1, n1, l0, l1]); // 6 x 9 + 1 bits: injective
    assert!(ch.public_coin().n == 1 && ch.public_coin().log[0] == Ev::Reseed(want));
    // verifier side: the frame it parses out of the proof (parsing itself: C03 / C06 / C12) is hashed the same way
    assert!(frame.hash::<PH>() == want);
    kani::cover!(true);
    core::mem::forget(ch);
}

// @ob id=C04 tier=quick req=1 to=900 funcs="TraceInfo::with_meta,TraceInfo::to_elements,StarkField::from_bytes_with_padding" bounds="128-bit field (canonical representation): 17 metadata bytes = one full 15-byte chunk + a 2-byte tail" sym="all 17 metadata bytes" desc="every byte of the trace metadata reaches the coin seed: the seed elements are exactly the little-endian chunks of the metadata, the last (short) chunk included"
#[kani::proof]
#[kani::unwind(20)]
#[kani::stub(alloc::fmt::format, nofmt)]
fn c04_trace_meta_reaches_seed_f128() {
    use math::fields::f128::BaseElement as F;
    use math::StarkField;
    let meta: [u8; 17] = kani::any();
    kani::assume(meta[14] < 0x80); // keep the 15-byte chunk below the modulus irrespective of the field (it is < 2^120 anyway)
    let info = TraceInfo::with_meta(1, 8, meta.to_vec());
    let e: Vec<F> = info.to_elements();
    assert!(e.len() == 4);
    let mut lo = [0u8; 16]; let mut i = 0; while i < 15 { lo[i] = meta[i]; i += 1; }
    assert!(e[2].as_int() == u128::from_le_bytes(lo));
    assert!(e[3].as_int() == (meta[15] as u128) | ((meta[16] as u128) << 8));
    assert!(e[1].as_int() == 8);
    kani::cover!(true);
}

// @ob id=C04 tier=quick req=1 to=900 funcs="TraceInfo::with_meta,TraceInfo::to_elements" bounds="toy field (1 metadata byte per element), 3 metadata bytes" sym="metadata bytes" desc="every metadata byte is one seed element, in order"
#[kani::proof]
#[kani::unwind(12)]
#[kani::stub(alloc::fmt::format, nofmt)]
fn c04_trace_meta_reaches_seed_toy() {
    let meta: [u8; 3] = kani::any();
    let info = TraceInfo::with_meta(1, 8, meta.to_vec());
    let e: Vec<T> = info.to_elements();
    assert!(e.len() == 5);
    assert!(e[2].0 == meta[0] as u16 && e[3].0 == meta[1] as u16 && e[4].0 == meta[2] as u16);
    kani::cover!(true);
}

// @ob id=C04 tier=quick req=1 to=1500 fs=1 funcs="ProverChannel::commit_fri_layer,draw_fri_alpha,grind_query_seed,get_query_positions,build_proof" bounds="toy AIR, 2 queries, LDE domain 16, grinding 3, 2 FRI commitments" sym="FRI commitments" desc="each FRI commitment is absorbed before its alpha; the nonce found by grinding meets the grinding factor under the coin's measure, is the nonce the query positions are drawn with (over the whole LDE domain, requested count) and is the one stored in the proof"
#[kani::proof]
#[kani::unwind(40)]
#[kani::stub(alloc::fmt::format, nofmt)]
fn c04_prover_channel_fri_and_queries() {
    use fri::ProverChannel as _;
    let air = ToyAir::new(TraceInfo::new(1, 8), T::ONE, opts());
    let mut ch = PC::new(&air, vec![T::ONE]);
    let (f0, f1) = (dg(), dg());
    ch.commit_fri_layer(f0);
    let _a0: T = ch.draw_fri_alpha();
    ch.commit_fri_layer(f1);
    let _a1: T = ch.draw_fri_alpha();
    ch.grind_query_seed();
    let pos = ch.get_query_positions();
    assert!(pos.len() >= 1 && pos.len() <= 2);
    let log = ch.public_coin().log;
    let n = ch.public_coin().n;
    assert!(log[0] == Ev::Reseed(f0) && log[1] == Ev::Draw);
    assert!(log[2] == Ev::Reseed(f1) && log[3] == Ev::Draw);
    let nonce = match log[4] { Ev::DrawInts(nq, dom, nonce) => { assert!(nq == 2 && dom == 16); nonce }, _ => { assert!(false); 0 } };
    assert!(n == 5);
    assert!(nonce >= 1 && (nonce & 31) as u32 >= GRIND);
    let q = || Queries::read_from(&mut SliceReader::new(&[0u8; 8])).unwrap();
    let proof = ch.build_proof(vec![q()], q(), FriProof::new_dummy(), pos.len(), None);
    assert!(proof.pow_nonce == nonce);
    kani::cover!(true);
    core::mem::forget(proof);
}

// @ob id=C04 tier=quick req=1 to=1500 fs=1 funcs="ProverChannel::commit_trace,commit_constraints,commit_fri_layer,send_ood_trace_states,send_ood_constraint_evaluations,build_proof,Commitments::add,Commitments::parse,OodFrame::parse" bounds="toy AIR; 1 trace commitment, 1 constraint commitment, 2 FRI commitments, OOD frame of 1 column" sym="all commitments, OOD frame elements and evaluation" desc="the proof carries exactly the values that were absorbed: commitments in order, OOD trace states and OOD constraint evaluations"
#[kani::proof]
#[kani::unwind(40)]
#[kani::stub(alloc::fmt::format, nofmt)]
fn c04_prover_channel_proof_carries_absorbed() {
    use fri::ProverChannel as _;
    let air = ToyAir::new(TraceInfo::new(1, 8), T::ONE, opts());
    let mut ch = PC::new(&air, vec![T::ONE]);
    let (d1, d2, f0, f1) = (dg(), dg(), dg(), dg());
    ch.commit_trace(d1);
    ch.commit_constraints(d2);
    let (c0, n0, ev) = (el(), el(), el());
    ch.send_ood_trace_states(&TraceOodFrame::new(vec![c0], vec![n0], 1, None));
    ch.send_ood_constraint_evaluations(&[ev]);
    ch.commit_fri_layer(f0);
    ch.commit_fri_layer(f1);
    let q = || Queries::read_from(&mut SliceReader::new(&[0u8; 8])).unwrap();
    let proof = ch.build_proof(vec![q()], q(), FriProof::new_dummy(), 1, None);
    let (tr, cr, fr) = proof.commitments.clone().parse::<PH>(1, 1).unwrap();
    assert!(tr.len() == 1 && tr[0] == d1 && cr == d2 && fr.len() == 2 && fr[0] == f0 && fr[1] == f1);
    let (fr2, evs) = proof.ood_frame.clone().parse::<T>(1, 0, 1).unwrap();
    assert!(fr2.current_row().len() == 1 && fr2.current_row()[0] == c0 && fr2.next_row()[0] == n0);
    assert!(evs.len() == 1 && evs[0] == ev);
    kani::cover!(true);
    core::mem::forget(proof);
}

// @ob id=C04 tier=quick req=1 to=900 fs=1 funcs="fri::DefaultProverChannel::new,commit_fri_layer,draw_fri_alpha,draw_query_positions,layer_commitments" bounds="domain 16, 3 queries, 2 commitments" sym="commitments, nonce" desc="fri's own prover channel: commitments are absorbed in order, each before the alpha that follows; query positions are drawn with the given nonce over the full domain"
#[kani::proof]
#[kani::unwind(12)]
#[kani::stub(alloc::fmt::format, nofmt)]
fn c04_fri_default_prover_channel() {
    use fri::ProverChannel as _;
    let mut ch = fri::DefaultProverChannel::<T, PH, SpecCoin>::new(16, 3);
    let (f0, f1) = (dg(), dg());
    ch.commit_fri_layer(f0);
    let _a: T = ch.draw_fri_alpha();
    ch.commit_fri_layer(f1);
    let _b: T = ch.draw_fri_alpha();
    let nonce: u64 = kani::any();
    let pos = ch.draw_query_positions(nonce);
    assert!(pos.len() == 3);
    assert!(ch.layer_commitments().len() == 2 && ch.layer_commitments()[0] == f0 && ch.layer_commitments()[1] == f1);
    kani::cover!(true);
    // the coin is private: its behaviour is observed through a second channel fed the same messages in a different order
    let mut ch2 = fri::DefaultProverChannel::<T, PH, SpecCoin>::new(16, 3);
    ch2.commit_fri_layer(f0);
    let a2: T = ch2.draw_fri_alpha();
    // SpecCoin's draw is a function of (seed, counter): same history => same value
    assert!(a2 == _a);
}

/// fri prover channel that records the order of commitments and draws
struct RecCh { ev: [u8; 12], dig: [PD; 12], n: usize }
impl fri::ProverChannel<T> for RecCh {
    type Hasher = PH;
    fn commit_fri_layer(&mut self, root: PD) { if self.n < 12 { self.ev[self.n] = b'C'; self.dig[self.n] = root; } self.n += 1; }
    fn draw_fri_alpha(&mut self) -> T { if self.n < 12 { self.ev[self.n] = b'D'; } self.n += 1; T(3 + self.n as u16) }
}

// @ob id=C04 tier=quick req=1 to=1500 fs=1 funcs="FriProver::build_layers,FriProver::build_layer,FriProver::set_remainder,apply_drp,MerkleTree::new" bounds="F_257, domain 16, folding 2, blowup 2, remainder max degree 1 (2 layers + remainder); evaluations fixed except one" sym="one evaluation of the input function" desc="the FRI prover sends each layer commitment before it asks for that layer's alpha, and the remainder commitment last (C, D, C, D, C)"
#[kani::proof]
#[kani::unwind(20)]
#[kani::stub(alloc::fmt::format, nofmt)]
fn c04_fri_prover_commit_before_alpha() {
    let mut evals: Vec<T> = Vec::new();
    let mut i = 0u32; while i < 16 { evals.push(T::new(i * i * 7 + 11 * i + 5)); i += 1; }
    evals[0] = el();
    let mut ch = RecCh { ev: [0; 12], dig: [PD(0); 12], n: 0 };
    let mut prover = FriProver::<T, T, RecCh, PH>::new(FriOptions::new(2, 2, 1));
    prover.build_layers(&mut ch, evals);
    assert!(ch.n == 5);
    assert!(ch.ev[0] == b'C' && ch.ev[1] == b'D' && ch.ev[2] == b'C' && ch.ev[3] == b'D' && ch.ev[4] == b'C');
    kani::cover!(true);
    core::mem::forget(prover);
}

struct StubCh { commits: Vec<PD> }
impl fri::VerifierChannel<T> for StubCh {
    type Hasher = PH;
    fn read_fri_num_partitions(&self) -> usize { 1 }
    fn read_fri_layer_commitments(&mut self) -> Vec<PD> { self.commits.clone() }
    fn take_next_fri_layer_proof(&mut self) -> BatchMerkleProof<PH> { unreachable!() }
    fn take_next_fri_layer_queries(&mut self) -> Vec<T> { unreachable!() }
    fn take_fri_remainder(&mut self) -> Vec<T> { unreachable!() }
}

// @ob id=C04 tier=quick req=1 to=900 fs=1 funcs="FriVerifier::new" bounds="max degree 7, blowup 2, folding 2; 3 layer commitments" sym="the three commitments" desc="the FRI verifier absorbs each layer commitment and then draws that layer's alpha, in order (Reseed c0, Draw, Reseed c1, Draw, Reseed c2, Draw) and nothing else"
#[kani::proof]
#[kani::unwind(12)]
#[kani::stub(alloc::fmt::format, nofmt)]
fn c04_fri_verifier_new_transcript() {
    let (c0, c1, c2) = (dg(), dg(), dg());
    let mut ch = StubCh { commits: vec![c0, c1, c2] };
    let mut coin = SpecCoin::new(&[]);
    let v = FriVerifier::<T, StubCh, PH, SpecCoin>::new(&mut ch, &mut coin, FriOptions::new(2, 2, 1), 7);
    assert!(v.is_ok());
    assert!(coin.n == 6);
    assert!(coin.log[0] == Ev::Reseed(c0) && coin.log[1] == Ev::Draw);
    assert!(coin.log[2] == Ev::Reseed(c1) && coin.log[3] == Ev::Draw);
    assert!(coin.log[4] == Ev::Reseed(c2) && coin.log[5] == Ev::Draw);
    kani::cover!(true);
    core::mem::forget(v);
}

// @ob id=C04 tier=quick req=1 to=600 expect=fail desc="vacuity twin: the end of the FRI-verifier transcript harness is reachable"
#[kani::proof]
#[kani::unwind(12)]
#[kani::stub(alloc::fmt::format, nofmt)]
fn c04_vacuity_twin() {
    let (c0, c1) = (dg(), dg());
    let mut ch = StubCh { commits: vec![c0, c1] };
    let mut coin = SpecCoin::new(&[]);
    let v = FriVerifier::<T, StubCh, PH, SpecCoin>::new(&mut ch, &mut coin, FriOptions::new(2, 2, 1), 3);
    if v.is_ok() && coin.n == 4 { assert!(false); }
    core::mem::forget(v);
}

