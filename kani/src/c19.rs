//! C19: public coin contract. DefaultRandomCoin over the transparent PairHash128 is compared with a
//! reference coin (a function of the history) for symbolic seed / reseed data / nonce / draw counts.
use crypto::{DefaultRandomCoin, Digest, ElementHasher, Hasher, RandomCoin};
use math::fields::{f128, f62, f64};
use math::{FieldElement, StarkField};
use utils::Randomizable;

use crate::hashers::{MixHash, PairHash128 as PH, PD128 as PD, MD};
use crate::toy::T;
use crate::util::nofmt;

fn anyt() -> T { let v: u16 = kani::any(); kani::assume(v < 257); T(v) }
fn dig4() -> PD { let v: u8 = kani::any(); PD::mk((v & 15) as u128, 4) }
fn head(d: PD) -> u64 { let b = d.as_bytes(); u64::from_le_bytes([b[0], b[1], b[2], b[3], b[4], b[5], b[6], b[7]]) }

/// reference coin: state = (seed, counter); every output is H applied to the whole history
struct Ref { seed: PD, ctr: u64 }
impl Ref {
    fn new(s: &[T]) -> Self { Ref { seed: PH::hash_elements(s), ctr: 0 } }
    fn reseed(&mut self, d: PD) { self.seed = PH::merge(&[self.seed, d]); self.ctr = 0; }
    fn next(&mut self) -> PD { self.ctr += 1; PH::merge_with_int(self.seed, self.ctr) }
    fn draw_t(&mut self) -> T {
        // first candidate whose low 2 bytes are < 257 (rejection sampling), at most 3 tries in these harnesses
        loop { let d = self.next(); let b = d.as_bytes(); let v = u16::from_le_bytes([b[0], b[1]]); if v < 257 { return T(v); } }
    }
    fn ints(&mut self, n: usize, dom: usize, nonce: u64) -> [usize; 3] {
        self.seed = PH::merge_with_int(self.seed, nonce); self.ctr = 0;
        let mut r = [0usize; 3]; let mut i = 0;
        while i < n { r[i] = (head(self.next()) & (dom as u64 - 1)) as usize; i += 1; }
        r
    }
    fn clz(&self, v: u64) -> u32 { head(PH::merge_with_int(self.seed, v)).trailing_zeros() }
}

// @ob id=C19 tier=quick req=1 to=600 funcs="DefaultRandomCoin::{new,reseed,draw_integers,check_leading_zeros,next}" bounds="history new(s) reseed(d) draw_integers(2,8,nonce) check_leading_zeros(v); nonce, v < 2^16 (PairHash int field)" sym="seed element, reseed digest, nonce, pow value"
#[kani::proof]
#[kani::unwind(8)]
#[kani::stub(alloc::fmt::format, nofmt)]
fn c19_history_reseed_ints_clz() {
    let s = anyt();
    let mut coin = DefaultRandomCoin::<PH>::new(&[s]);
    let mut rf = Ref::new(&[s]);
    let d = dig4();
    coin.reseed(d); rf.reseed(d);
    let nonce: u16 = kani::any();
    let r = coin.draw_integers(2, 8, nonce as u64).unwrap();
    let e = rf.ints(2, 8, nonce as u64);
    assert!(r.len() == 2 && r[0] == e[0] && r[1] == e[1]);
    let v: u16 = kani::any();
    assert!(coin.check_leading_zeros(v as u64) == rf.clz(v as u64));
    kani::cover!(true);
}

// @ob id=C19 tier=quick req=1 to=600 funcs="DefaultRandomCoin::{new,draw,reseed,next}" bounds="history new(s0,s1) draw draw reseed(d) draw; each draw accepted within 3 candidates" sym="seed elements, reseed digest"
#[kani::proof]
#[kani::unwind(8)]
#[kani::stub(alloc::fmt::format, nofmt)]
fn c19_history_draws_reseed_draw() {
    let s = [anyt(), anyt()];
    let mut coin = DefaultRandomCoin::<PH>::new(&s);
    let mut rf = Ref::new(&s);
    // PairHash's low bytes are the counter for merge_with_int, so the first candidate is accepted
    let a: T = coin.draw().unwrap(); assert!(a == rf.draw_t());
    let b: T = coin.draw().unwrap(); assert!(b == rf.draw_t());
    let d = dig4();
    coin.reseed(d); rf.reseed(d);
    let c: T = coin.draw().unwrap(); assert!(c == rf.draw_t());
    // number of earlier draws matters: the second draw differs from the first (counter 1 vs 2 in an injective hash)
    assert!(a != b);
    kani::cover!(true);
}

// @ob id=C19 tier=quick req=1 to=600 funcs="DefaultRandomCoin::{new,draw_integers,draw,reseed}" bounds="history new(s) draw draw_integers(3,16,nonce) draw reseed(d) draw_integers(1,2,nonce2)" sym="seed, nonces (< 2^16), digest"
#[kani::proof]
#[kani::unwind(8)]
#[kani::stub(alloc::fmt::format, nofmt)]
fn c19_history_mixed() {
    let s = anyt();
    let mut coin = DefaultRandomCoin::<PH>::new(&[s]);
    let mut rf = Ref::new(&[s]);
    let a: T = coin.draw().unwrap(); assert!(a == rf.draw_t());
    let n1: u16 = kani::any();
    let r = coin.draw_integers(3, 16, n1 as u64).unwrap();
    let e = rf.ints(3, 16, n1 as u64);
    assert!(r.len() == 3 && r[0] == e[0] && r[1] == e[1] && r[2] == e[2]);
    let b: T = coin.draw().unwrap(); assert!(b == rf.draw_t());
    let d = dig4();
    coin.reseed(d); rf.reseed(d);
    let n2: u16 = kani::any();
    let r = coin.draw_integers(1, 2, n2 as u64).unwrap();
    let e = rf.ints(1, 2, n2 as u64);
    assert!(r.len() == 1 && r[0] == e[0]);
    kani::cover!(true);
}

/// hasher whose merge_with_int exposes the full 64-bit integer in the first 8 digest bytes
#[derive(Debug, Clone, Copy, PartialEq, Eq)]
struct IdHash;
impl Hasher for IdHash {
    type Digest = MD;
    const COLLISION_RESISTANCE: u32 = 128;
    fn hash(_b: &[u8]) -> MD { MD(0) }
    fn merge(x: &[MD; 2]) -> MD { MD(x[0].0 ^ x[1].0) }
    fn merge_with_int(seed: MD, value: u64) -> MD { MD(seed.0 ^ value) }
}
impl ElementHasher for IdHash {
    type BaseField = T;
    fn hash_elements<E: FieldElement<BaseField = T>>(_e: &[E]) -> MD { MD(0) }
}

// @ob id=C19 tier=quick req=1 to=300 funcs="DefaultRandomCoin::check_leading_zeros,DefaultRandomCoin::draw_integers" bounds="full 64-bit nonce / pow value; domain 2^1..2^32; 1..=3 values" sym="nonce, value, domain exponent, count"
#[kani::proof]
#[kani::unwind(6)]
#[kani::stub(alloc::fmt::format, nofmt)]
fn c19_full_width_ints() {
    let coin0 = DefaultRandomCoin::<IdHash>::new(&[T(1)]);
    let v: u64 = kani::any();
    // the measure is the number of trailing zeros of the first 8 little-endian bytes of H(seed || v): the full v reaches H
    assert!(coin0.check_leading_zeros(v) == v.trailing_zeros());
    let mut coin = DefaultRandomCoin::<IdHash>::new(&[T(1)]);
    let nonce: u64 = kani::any();
    let k: u32 = kani::any(); kani::assume(k >= 2 && k <= 32);
    let n: usize = kani::any(); kani::assume(n >= 1 && n <= 3);
    let dom = 1usize << k;
    let r = coin.draw_integers(n, dom, nonce).unwrap();
    // exactly the requested number of values, each inside the domain, each a function of the full nonce and the counter
    assert!(r.len() == n);
    let mut i = 0;
    while i < n { assert!(r[i] < dom); assert!(r[i] == ((nonce ^ (i as u64 + 1)) & (dom as u64 - 1)) as usize); i += 1; }
    kani::cover!(n == 3 && k == 32);
}



/// hasher under which every ODD counter value yields a rejected candidate (low 16 bits >= 257) and every even one an accepted
/// candidate that depends on seed and counter: exercises the rejection path of `draw` (with PairHash the first candidate is always accepted)
#[derive(Debug, Clone, Copy, PartialEq, Eq)]
struct RejHash;
fn rej_val(seed: u64, v: u64) -> u64 { if v & 1 == 1 { 0x8000 | (v & 0xff) } else { (seed.wrapping_add(v.wrapping_mul(7))) % 257 } }
impl Hasher for RejHash {
    type Digest = MD;
    const COLLISION_RESISTANCE: u32 = 128;
    fn hash(_b: &[u8]) -> MD { MD(0) }
    fn merge(x: &[MD; 2]) -> MD { MD((x[0].0 & 0xffff).wrapping_mul(31) ^ (x[1].0 & 0xff)) }
    fn merge_with_int(seed: MD, value: u64) -> MD { MD(rej_val(seed.0 & 0xffff, value)) }
}
impl ElementHasher for RejHash {
    type BaseField = T;
    fn hash_elements<E: FieldElement<BaseField = T>>(e: &[E]) -> MD { MD(E::slice_as_base_elements(e)[0].as_int()) }
}
// @ob id=C19 tier=quick req=1 to=600 funcs="DefaultRandomCoin::{new,draw,reseed,next}" bounds="history new(s) draw draw draw reseed(d) draw; every draw meets exactly one rejected candidate before an accepted one" sym="seed element, reseed digest byte" desc="after a rejected candidate the coin continues with the NEXT counter value: the k-th draw returns the candidate of counter 2k (a function of the number of earlier draws), also after a reseed"
#[kani::proof]
#[kani::unwind(8)]
#[kani::stub(alloc::fmt::format, nofmt)]
fn c19_draws_with_rejected_candidates() {
    let s = anyt();
    let mut coin = DefaultRandomCoin::<RejHash>::new(&[s]);
    let seed = s.as_int();
    let a: T = coin.draw().unwrap(); assert!(a.as_int() == rej_val(seed, 2));
    let b: T = coin.draw().unwrap(); assert!(b.as_int() == rej_val(seed, 4));
    let c: T = coin.draw().unwrap(); assert!(c.as_int() == rej_val(seed, 6));
    let dv: u8 = kani::any();
    coin.reseed(MD(dv as u64));
    let seed2 = RejHash::merge(&[MD(seed), MD(dv as u64)]).0 & 0xffff;
    let d: T = coin.draw().unwrap(); assert!(d.as_int() == rej_val(seed2, 2));
    let e: T = coin.draw().unwrap(); assert!(e.as_int() == rej_val(seed2, 4));
    kani::cover!(a != b);
}

// @ob id=C19 tier=thorough req=0 to=3600 mem=24 funcs="DefaultRandomCoin::draw_integers" bounds="ATTEMPT (did not finish in 1800 s): requested counts 999..=1002 around the 1000-attempt cap of draw_integers, domain 2^12, identity hasher" sym="nonce (full 64 bits), requested count" desc="draw_integers returns exactly the requested number of integers or an error -- never a shorter vector"
#[kani::proof]
#[kani::unwind(1003)]
#[kani::stub(alloc::fmt::format, nofmt)]
fn c19_draw_integers_exact_count_at_cap() {
    let mut coin = DefaultRandomCoin::<IdHash>::new(&[T(1)]);
    let nonce: u64 = kani::any();
    let n: usize = kani::any();
    kani::assume(n >= 999 && n <= 1002);
    let r = coin.draw_integers(n, 4096, nonce);
    match &r {
        Ok(v) => { assert!(v.len() == n); assert!(v[n - 1] < 4096); },
        Err(_) => { assert!(n > 1000); },
    }
    kani::cover!(r.is_ok());
    kani::cover!(r.is_err());
    core::mem::forget(r);
}

// @ob id=C19 tier=quick req=1 to=300 funcs="DefaultRandomCoin::draw_integers" bounds="preconditions: domain not a power of two or count >= domain are refused (documented panic)" sym="domain, count" expect=fail desc="documented precondition panics are reachable (refusal), witness twin"
#[kani::proof]
#[kani::unwind(6)]
#[kani::stub(alloc::fmt::format, nofmt)]
fn c19_draw_integers_refuses_bad_args() {
    let mut coin = DefaultRandomCoin::<IdHash>::new(&[T(1)]);
    let dom: usize = kani::any(); kani::assume(dom <= 16);
    let n: usize = kani::any(); kani::assume(n <= 3);
    kani::assume(!dom.is_power_of_two() || n >= dom);
    let r = coin.draw_integers(n, dom, 0);
    core::mem::forget(r);
}

macro_rules! c19_from_random_bytes {
    ($name:ident, $ty:ty, $n:expr, $modulus:expr) => {
        #[kani::proof]
        #[kani::unwind(4)]
        #[kani::stub(alloc::fmt::format, nofmt)]
        fn $name() {
            let b: [u8; $n] = kani::any();
            let e = <$ty as Randomizable>::from_random_bytes(&b);
            kani::cover!(e.is_some());
            kani::cover!(e.is_none());
            if let Some(x) = e {
                // a drawn element is a valid canonical element: its canonical integer is below the modulus
                assert!((x.as_int() as u128) < $modulus);
            }
        }
    };
}
// @ob id=C19 tier=quick req=1 to=600 name=c19_from_random_bytes_f128 funcs="f128::BaseElement::from_random_bytes" bounds="all 16-byte strings" sym="bytes"
c19_from_random_bytes!(c19_from_random_bytes_f128, f128::BaseElement, 16, 340282366920938463463374557953744961537u128);
// @ob id=C19 tier=thorough req=0 to=900 name=c19_from_random_bytes_f64 funcs="f64::BaseElement::from_random_bytes" bounds="all 8-byte strings" sym="bytes"
c19_from_random_bytes!(c19_from_random_bytes_f64, f64::BaseElement, 8, 18446744069414584321u128);
// @ob id=C19 tier=thorough req=0 to=900 name=c19_from_random_bytes_f62 funcs="f62::BaseElement::from_random_bytes" bounds="all 8-byte strings" sym="bytes"
c19_from_random_bytes!(c19_from_random_bytes_f62, f62::BaseElement, 8, 4611624995532046337u128);

// @ob id=C19 tier=quick req=1 to=300 expect=fail desc="vacuity twin for the coin histories"
#[kani::proof]
#[kani::unwind(8)]
#[kani::stub(alloc::fmt::format, nofmt)]
fn c19_vacuity_twin() {
    let s = anyt();
    let mut coin = DefaultRandomCoin::<PH>::new(&[s]);
    let d = dig4();
    coin.reseed(d);
    let r = coin.draw_integers(2, 8, 5).unwrap();
    assert!(r.len() != 2);
}
