//! Kani harness crate for winterfell (Engine K of /verif/DESIGN.md).
//! The code under test is /repo's (path dependencies); this crate only supplies type parameters
//! (toy field, transparent hashers), drivers and assertions.
#![allow(dead_code, unused_imports, clippy::all)]
pub mod toy;
pub mod hashers;
pub mod util;
pub mod coins;

#[cfg(kani)]
mod c06;
#[cfg(kani)]
mod gen_c06;
#[cfg(kani)]
mod gen_c13;
#[cfg(kani)]
mod c12;
#[cfg(kani)]
mod gen_c10;
#[cfg(kani)]
mod c19;
#[cfg(kani)]
mod c16;
#[cfg(kani)]
mod gen_c09;
#[cfg(kani)]
mod c09;
#[cfg(kani)]
mod gen_c20;
#[cfg(kani)]
mod gen_c15;
#[cfg(kani)]
mod c15;
#[cfg(kani)]
mod c18;
#[cfg(kani)]
mod c07;
#[cfg(kani)]
mod c03;
#[cfg(kani)]
mod gen_c05;
#[cfg(kani)]
mod c04;
#[cfg(kani)]
mod c11;
#[cfg(kani)]
mod c08;
#[cfg(kani)]
mod c06v;
