//! Kani harness crate for winterfell (Engine K of /verif/DESIGN.md).
//! The code under test is /repo's (path dependencies); this crate only supplies type parameters
//! (toy field, transparent hashers), drivers and assertions.
#![allow(dead_code, unused_imports, clippy::all)]
pub mod toy;
pub mod hashers;
pub mod util;

#[cfg(kani)]
mod c06;
#[cfg(kani)]
mod gen_c06;
#[cfg(kani)]
mod gen_c13;
#[cfg(kani)]
mod c12;
