//! C18: conjectured security estimate and acceptance policy (integer arithmetic only; the proven
//! estimate is f64 transcendental code and is outside what CBMC can decide faithfully).
use air::{proof::{Context, Proof}, FieldExtension, ProofOptions, TraceInfo};
use crypto::{ElementHasher, Hasher};
use math::fields::{f128, f62, f64};
use math::{FieldElement, StarkField};
use verifier::{AcceptableOptions, VerifierError};

use crate::hashers::MD;
use crate::toy::T;
use crate::util::nofmt;

/// hasher with a chosen collision resistance (only the constant matters here)
#[derive(Debug, Clone, Copy, PartialEq, Eq)]
pub struct CrHash<const CR: u32>;
impl<const CR: u32> Hasher for CrHash<CR> {
    type Digest = MD;
    const COLLISION_RESISTANCE: u32 = CR;
    fn hash(_b: &[u8]) -> MD { MD(0) }
    fn merge(_x: &[MD; 2]) -> MD { MD(0) }
    fn merge_with_int(_s: MD, _v: u64) -> MD { MD(0) }
}

/// the OptionSet variant carries a Vec, so CBMC cannot fold the enum discriminant and explores the
/// MinProvenSecurity arm (f64 libm code, 55 M clauses) although it is unreachable; that arm is cut here.
fn no_proven(_o: &ProofOptions, _b: u32, _t: usize, _c: u32) -> u32 { kani::assume(false); 0 }

struct Params { q: usize, lb: u32, g: u32, e: u8, k: u32 }
fn any_params() -> Params {
    let q: usize = kani::any(); let lb: u32 = kani::any(); let g: u32 = kani::any(); let e: u8 = kani::any(); let k: u32 = kani::any();
    kani::assume(q >= 1 && q <= 255 && lb >= 1 && lb <= 7 && g <= 32 && e >= 1 && e <= 3 && k >= 3 && k <= 30);
    kani::assume(k + lb <= 31);
    Params { q, lb, g, e, k }
}
fn ext(e: u8) -> FieldExtension { match e { 1 => FieldExtension::None, 2 => FieldExtension::Quadratic, _ => FieldExtension::Cubic } }
fn proof_for<B: StarkField>(p: &Params) -> Proof {
    let mut proof = Proof::new_dummy();
    proof.context = Context::new::<B>(TraceInfo::new(1, 1usize << p.k), ProofOptions::new(p.q, 1usize << p.lb, p.g, ext(p.e), 4, 31));
    proof
}
/// the documented formula, written out independently
fn formula(p: &Params, field_bits: u32, cr: u32) -> u32 {
    let field_security = field_bits * p.e as u32 - (p.k + p.lb);
    let mut query_security = p.lb * p.q as u32;
    if query_security >= 80 { query_security += p.g; }
    let m = if field_security < query_security { field_security } else { query_security };
    if m - 1 < cr { m - 1 } else { cr }
}

macro_rules! c18_formula {
    ($name:ident, $field:ty, $bits:expr, $cr:expr) => {
        #[kani::proof]
        #[kani::unwind(20)]
        #[kani::stub(alloc::fmt::format, nofmt)]
        fn $name() {
            let p = any_params();
            let proof = proof_for::<$field>(&p);
            let level = proof.security_level::<CrHash<$cr>>(true);
            assert!(level == formula(&p, $bits, $cr));
            // policy: refused exactly when the level is below the caller's minimum
            let min: u32 = kani::any();
            let res = AcceptableOptions::MinConjecturedSecurity(min).validate::<CrHash<$cr>>(&proof);
            assert!(res.is_err() == (level < min));
            kani::cover!(level == $cr);
            kani::cover!(level < 10);
            core::mem::forget((proof, res));
        }
    };
}
// @ob id=C18 tier=quick req=1 to=900 fs=1 name=c18_formula_f64_cr128 funcs="Proof::security_level,get_conjectured_security,Context::num_modulus_bits,AcceptableOptions::validate" bounds="64-bit field, collision resistance 128; queries 1..255, blowup 2..128, grinding 0..32, all extensions, trace 2^3.. with LDE <= 2^31" sym="queries, blowup, grinding, extension, trace length, caller's minimum"
c18_formula!(c18_formula_f64_cr128, f64::BaseElement, 64, 128);
// @ob id=C18 tier=quick req=1 to=900 fs=1 name=c18_formula_f62_cr96 funcs="Proof::security_level,get_conjectured_security,Context::num_modulus_bits,AcceptableOptions::validate" bounds="62-bit field, collision resistance 96" sym="queries, blowup, grinding, extension, trace length, caller's minimum"
c18_formula!(c18_formula_f62_cr96, f62::BaseElement, 62, 96);
// @ob id=C18 tier=quick req=1 to=900 fs=1 name=c18_formula_f128_cr128 funcs="Proof::security_level,get_conjectured_security,Context::num_modulus_bits,AcceptableOptions::validate" bounds="128-bit field, collision resistance 128" sym="queries, blowup, grinding, extension, trace length, caller's minimum"
c18_formula!(c18_formula_f128_cr128, f128::BaseElement, 128, 128);

// @ob id=C18 tier=quick req=1 to=900 fs=1 funcs="Proof::security_level,get_conjectured_security" bounds="64-bit field; two parameter sets that differ in one parameter" sym="both parameter sets"
#[kani::proof]
#[kani::unwind(20)]
#[kani::stub(alloc::fmt::format, nofmt)]
fn c18_monotone() {
    let a = any_params();
    let which: u8 = kani::any();
    kani::assume(which < 3);
    let mut b = Params { q: a.q, lb: a.lb, g: a.g, e: a.e, k: a.k };
    // b >= a in exactly one of: number of queries, grinding factor, extension degree
    match which {
        0 => { let q2: usize = kani::any(); kani::assume(q2 >= a.q && q2 <= 255); b.q = q2; },
        1 => { let g2: u32 = kani::any(); kani::assume(g2 >= a.g && g2 <= 32); b.g = g2; },
        _ => { let e2: u8 = kani::any(); kani::assume(e2 >= a.e && e2 <= 3); b.e = e2; },
    }
    let la = proof_for::<f64::BaseElement>(&a).security_level::<CrHash<128>>(true);
    let lb = proof_for::<f64::BaseElement>(&b).security_level::<CrHash<128>>(true);
    assert!(lb >= la);
    // collision resistance
    let l96 = proof_for::<f64::BaseElement>(&a).security_level::<CrHash<96>>(true);
    assert!(la >= l96);
    kani::cover!(lb > la);
}

// @ob id=C18 tier=quick req=1 to=900 funcs="AcceptableOptions::validate (OptionSet)" bounds="option sets of 2 entries, each differing from the proof's options in at most one field" sym="the proof's options; the differing query count / grinding factor"
#[kani::proof]
#[kani::unwind(20)]
#[kani::stub(alloc::fmt::format, nofmt)]
#[kani::stub(winter_air::proof::get_proven_security, no_proven)]
fn c18_option_set() {
    let p = any_params();
    let proof = proof_for::<f64::BaseElement>(&p);
    // two accepted option sets: each either equals the proof's options or differs from them in one symbolic field
    let q1: usize = kani::any(); kani::assume(q1 >= 1 && q1 <= 255);
    let g2: u32 = kani::any(); kani::assume(g2 <= 32);
    let o1 = ProofOptions::new(q1, 1usize << p.lb, p.g, ext(p.e), 4, 31);
    let o2 = ProofOptions::new(p.q, 1usize << p.lb, g2, ext(p.e), 4, 31);
    let set = AcceptableOptions::OptionSet(vec![o1, o2]);
    let res = set.validate::<CrHash<128>>(&proof);
    let member = q1 == p.q || g2 == p.g;
    assert!(res.is_ok() == member);
    kani::cover!(member);
    kani::cover!(!member);
    core::mem::forget((proof, res, set));
}


/// stand-in for the proven estimate (f64 code CBMC cannot decide): a constant that differs from every conjectured level the
/// harness below can reach, so that WHICH estimate the policy consulted is observable
fn proven_is_11(_o: &ProofOptions, _b: u32, _t: usize, _c: u32) -> u32 { 11 }
// @ob id=C18 tier=quick req=1 to=900 fs=1 funcs="AcceptableOptions::validate (MinProvenSecurity, MinConjecturedSecurity),Proof::security_level" bounds="64-bit field; the proven estimate replaced by the constant 11 (stub); conjectured level >= 20 assumed" sym="all option parameters, the caller's minimum" desc="MinProvenSecurity(min) refuses exactly when the PROVEN estimate is below min (not the conjectured one), MinConjecturedSecurity(min) exactly when the conjectured one is"
#[kani::proof]
#[kani::unwind(20)]
#[kani::stub(alloc::fmt::format, nofmt)]
#[kani::stub(winter_air::proof::get_proven_security, proven_is_11)]
fn c18_policy_consults_matching_estimate() {
    let p = any_params();
    let proof = proof_for::<f64::BaseElement>(&p);
    let conj = proof.security_level::<CrHash<128>>(true);
    kani::assume(conj >= 20);
    let proven = proof.security_level::<CrHash<128>>(false);
    let min: u32 = kani::any();
    // under Kani the stub is active (proven == 11). In a NATIVE replay stubs are not applied and `proven` is the real estimate: the
    // caller's minimum is then placed just above it, so that the replay shows the policy accepting a proof below the minimum
    let min = if proven == 11 { min } else { proven + 1 };
    let rp = AcceptableOptions::MinProvenSecurity(min).validate::<CrHash<128>>(&proof);
    assert!(rp.is_err() == (proven < min));
    let rc = AcceptableOptions::MinConjecturedSecurity(min).validate::<CrHash<128>>(&proof);
    assert!(rc.is_err() == (conj < min));
    kani::cover!(min > 11 && min <= conj);
    core::mem::forget((proof, rp, rc));
}

// @ob id=C18 tier=quick req=1 to=600 expect=fail desc="vacuity twin for the security-level family"
#[kani::proof]
#[kani::unwind(20)]
#[kani::stub(alloc::fmt::format, nofmt)]
fn c18_vacuity_twin() {
    let p = any_params();
    let proof = proof_for::<f64::BaseElement>(&p);
    let level = proof.security_level::<CrHash<128>>(true);
    assert!(level != 100);
    core::mem::forget(proof);
}
