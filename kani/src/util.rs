//! Small harness helpers (trusted).
use std::io::Read;

/// stub for `alloc::fmt::format`: error paths build messages with `format!`, which explodes in CBMC.
pub fn nofmt(_a: core::fmt::Arguments<'_>) -> String { String::new() }

/// `io::Read` over a slice that hands out at most `chunk` bytes per call; if `empty_first` is set the
/// k-th call (k = `empty_at`) returns Ok(0)?? -- no: an Ok(0) means EOF for Read; instead we model an
/// `Interrupted`-free short read only. (Empty reads before EOF are not part of the io::Read contract.)
pub struct Chunked<'a> { pub data: &'a [u8], pub pos: usize, pub chunk: usize }
impl<'a> Chunked<'a> { pub fn new(data: &'a [u8], chunk: usize) -> Self { Chunked { data, pos: 0, chunk } } }
impl<'a> Read for Chunked<'a> {
    fn read(&mut self, buf: &mut [u8]) -> std::io::Result<usize> {
        let rem = self.data.len() - self.pos;
        let mut n = if rem < self.chunk { rem } else { self.chunk };
        if buf.len() < n { n = buf.len(); }
        buf[..n].copy_from_slice(&self.data[self.pos..self.pos + n]);
        self.pos += n;
        Ok(n)
    }
}
