//! C15 (hand-written part): the layout of FRI layer openings agrees between prover and verifier -- `FriProofLayer::parse`
//! accepts exactly the value sections that hold a whole number of queries (folding_factor elements each), for base, quadratic
//! and cubic elements (element sizes 2, 4, 6 bytes at the toy field, so that `ELEMENT_BYTES * folding_factor` is NOT always a
//! power of two), returns the values in order and recomputes each leaf from its query's values.
use crypto::{BatchMerkleProof, ElementHasher, RandomCoin};
use fri::FriProof;
use math::fields::{CubeExtension, QuadExtension};
use math::FieldElement;
use utils::{Deserializable, SliceReader};

use crate::hashers::{PairHash64 as PH, PD64 as PD};
use crate::toy::T;
use crate::util::nofmt;

type Q = QuadExtension<T>;
type C3 = CubeExtension<T>;

macro_rules! c15_layer_layout {
    ($name:ident, $E:ty, $deg:expr, $fold:expr, $k:expr, $extra:expr, $unwind:expr) => {
        #[kani::proof]
        #[kani::unwind($unwind)]
        #[kani::stub(alloc::fmt::format, nofmt)]
        fn $name() {
            // values: k queries x fold elements x deg base coordinates x 2 bytes (+ `extra` surplus base elements);
            // paths: one node vector per query holding one sibling digest (depth-1 tree): [k]([1][8 bytes])*
            const NV: usize = ($k * $fold * $deg + $extra) * 2;
            const NP: usize = 1 + $k * 9;
            // the layer travels inside a FriProof: [1 layer] layer [remainder: 0 bytes] [partitions: 2^0]
            let mut whole: [u8; 1 + 4 + NV + 4 + NP + 3] = kani::any();
            whole[0] = 1;
            whole[1 + 4 + NV + 4 + NP] = 0; whole[2 + 4 + NV + 4 + NP] = 0; whole[3 + 4 + NV + 4 + NP] = 0;
            let bytes = &mut whole[1..];
            // node digests concrete (they are only carried along here; their binding is C10's subject)
            let mut z = 0;
            while z < NP { bytes[8 + NV + z] = (z as u8).wrapping_mul(37); z += 1; }
            bytes[0] = NV as u8; bytes[1] = 0; bytes[2] = 0; bytes[3] = 0;
            bytes[4 + NV] = NP as u8; bytes[5 + NV] = 0; bytes[6 + NV] = 0; bytes[7 + NV] = 0;
            bytes[8 + NV] = $k;
            let mut q = 0;
            while q < $k { bytes[9 + NV + 9 * q] = 1; q += 1; }
            let bytes = &whole[1..];
            let bytes = ();
            // symbolic slice: every coordinate a fixed canonical constant except ONE (the middle one), which takes all 257 canonical
            // values (all-symbolic value bytes did not finish: 900 s; a non-canonical coordinate is c15_layer_noncanonical_rejected)
            let mut i = 0;
            while i < NV / 2 { let c = ((i * 29 + 5) % 257) as u16; whole[5 + 2 * i] = c as u8; whole[6 + 2 * i] = (c >> 8) as u8; i += 1; }
            let sv: u16 = kani::any();
            kani::assume(sv < 257);
            whole[5 + 2 * (NV / 4)] = sv as u8; whole[6 + 2 * (NV / 4)] = (sv >> 8) as u8;
            let bytes = &whole[1..];
            let mut r = SliceReader::new(&whole);
            let proof = FriProof::read_from(&mut r).unwrap();
            // parse_layers divides the domain size by the folding factor before parsing the layer: 2 leaves, depth 1
            let res = proof.parse_layers::<PH, $E>(2 * $fold, $fold);
            if $extra % ($fold * $deg) != 0 {
                // not a whole number of queries: refused
                assert!(res.is_err());
            } else {
                // a whole number of queries of canonical elements: accepted (completeness of the layout) ...
                assert!(res.is_ok());
                if let Ok((lv, lp)) = &res {
                    // ... the values come back in order (checked at the symbolic coordinate and at both ends), one leaf per query,
                    // recomputed from the query's values. (Popping the vectors and comparing every coordinate exhausted 12 GB.)
                    assert!(lv.len() == 1 && lp.len() == 1 && lv[0].len() * $deg * 2 == NV && lp[0].leaves.len() == $k);
                    let base = <$E>::slice_as_base_elements(&lv[0]);
                    assert!(base[NV / 4] == T(sv));
                    assert!(base[0] == T(5) && base[NV / 2 - 1] == T((((NV / 2 - 1) * 29 + 5) % 257) as u16));
                    assert!(lp[0].leaves[0] == PH::hash_elements(&lv[0][..$fold]));
                }
                core::mem::forget(res);
            }
            kani::cover!(true);
        }
    };
}
// @ob id=C15 also=C03 tier=quick req=1 fs=1 to=900 name=c15_layer_cubic_f4_q1 funcs="FriProof::read_from,FriProof::parse_layers,FriProofLayer::parse,BatchMerkleProof::deserialize" bounds="cubic extension of F_257 (6-byte elements), folding 4, 1 query (24 value bytes)" sym="one coordinate (all 257 canonical values)" enum="element type, folding factor, number of queries, the other coordinates, node digests"
c15_layer_layout!(c15_layer_cubic_f4_q1, C3, 3, 4, 1, 0, 30);
// @ob id=C15 also=C03 tier=quick req=1 fs=1 to=900 name=c15_layer_cubic_f2_q2 funcs="FriProof::read_from,FriProof::parse_layers,FriProofLayer::parse,BatchMerkleProof::deserialize" bounds="cubic extension of F_257, folding 2, 2 queries (24 value bytes)" sym="one coordinate (all 257 canonical values)" enum="element type, folding factor, number of queries, the other coordinates, node digests"
c15_layer_layout!(c15_layer_cubic_f2_q2, C3, 3, 2, 2, 0, 30);
// @ob id=C15 also=C03 tier=quick req=1 fs=1 to=900 name=c15_layer_quad_f4_q1 funcs="FriProof::read_from,FriProof::parse_layers,FriProofLayer::parse,BatchMerkleProof::deserialize" bounds="quadratic extension of F_257 (4-byte elements), folding 4, 1 query" sym="one coordinate (all 257 canonical values)" enum="element type, folding factor, number of queries, the other coordinates, node digests"
c15_layer_layout!(c15_layer_quad_f4_q1, Q, 2, 4, 1, 0, 24);
// @ob id=C15 also=C03 tier=quick req=1 fs=1 to=900 name=c15_layer_base_f2_q3 funcs="FriProof::read_from,FriProof::parse_layers,FriProofLayer::parse,BatchMerkleProof::deserialize" bounds="F_257 (2-byte elements), folding 2, 3 queries" sym="one coordinate (all 257 canonical values)" enum="element type, folding factor, number of queries, the other coordinates, node digests"
c15_layer_layout!(c15_layer_base_f2_q3, T, 1, 2, 3, 0, 32);
// @ob id=C15 also=C03 tier=quick req=1 fs=1 to=900 name=c15_layer_cubic_f4_partial funcs="FriProof::read_from,FriProof::parse_layers,FriProofLayer::parse" bounds="cubic extension of F_257, folding 4, 1 query plus 4 surplus base elements (32 value bytes: not a whole number of 24-byte queries)" sym="all value bytes, node digests" enum="element type, folding factor, number of queries, surplus"
c15_layer_layout!(c15_layer_cubic_f4_partial, C3, 3, 4, 1, 4, 40);
// @ob id=C15 also=C03 tier=quick req=1 fs=1 to=900 name=c15_layer_base_f4_partial funcs="FriProof::read_from,FriProof::parse_layers,FriProofLayer::parse" bounds="F_257, folding 4, 1 query plus 2 surplus elements" sym="all value bytes, node digests" enum="element type, folding factor, number of queries, surplus"
c15_layer_layout!(c15_layer_base_f4_partial, T, 1, 4, 1, 2, 20);

// @ob id=C15 also=C06 tier=quick req=1 fs=1 to=900 funcs="FriProof::read_from,FriProof::parse_layers,FriProofLayer::parse" bounds="cubic extension of F_257, folding 4, 1 query; ONE coordinate (position symbolic) not canonical" sym="position and value of the non-canonical coordinate, all other bytes" desc="a layer holding a non-canonical field element is refused"
#[kani::proof]
#[kani::unwind(30)]
#[kani::stub(alloc::fmt::format, nofmt)]
fn c15_layer_noncanonical_rejected() {
    const NV: usize = 24;
    const NP: usize = 10;
    let mut whole: [u8; 1 + 4 + NV + 4 + NP + 3] = kani::any();
    whole[0] = 1;
    whole[1 + 4 + NV + 4 + NP] = 0; whole[2 + 4 + NV + 4 + NP] = 0; whole[3 + 4 + NV + 4 + NP] = 0;
    whole[1] = NV as u8; whole[2] = 0; whole[3] = 0; whole[4] = 0;
    whole[5 + NV] = NP as u8; whole[6 + NV] = 0; whole[7 + NV] = 0; whole[8 + NV] = 0;
    whole[9 + NV] = 1; whole[10 + NV] = 1;
    let j: usize = kani::any();
    kani::assume(j < NV / 2);
    kani::assume(u16::from_le_bytes([whole[5 + 2 * j], whole[6 + 2 * j]]) >= 257);
    let mut r = SliceReader::new(&whole);
    let proof = FriProof::read_from(&mut r).unwrap();
    let res = proof.parse_layers::<PH, C3>(8, 4);
    assert!(res.is_err());
    kani::cover!(j == 11);
    core::mem::forget(res);
}

// ---- FriVerifier::new: the degree bookkeeping of the commit phase -------------------------------------------------------------
// An honest prover sends num_fri_layers(domain) + 1 commitments; the verifier's constructor must accept exactly the layer counts
// for which the degree bound stays divisible by the folding factor before every folding step (the last commitment is the
// remainder's and needs no divisibility), for every blowup factor, remainder size and degree bound 2^k - 1.
use crate::coins::CtrCoin;
use crate::hashers::{PairHash128 as PH2, PD128 as PD2};
use fri::{FriOptions, FriVerifier, VerifierChannel, VerifierError};

struct StubCh { commits: Vec<PD2> }
impl VerifierChannel<T> for StubCh {
    type Hasher = PH2;
    fn read_fri_num_partitions(&self) -> usize { 1 }
    fn read_fri_layer_commitments(&mut self) -> Vec<PD2> { self.commits.clone() }
    fn take_next_fri_layer_proof(&mut self) -> BatchMerkleProof<PH2> { unreachable!() }
    fn take_next_fri_layer_queries(&mut self) -> Vec<T> { unreachable!() }
    fn take_fri_remainder(&mut self) -> Vec<T> { unreachable!() }
}

macro_rules! c15_verifier_new {
    ($name:ident, $fold:expr, $c:expr) => {
        #[kani::proof]
        #[kani::unwind(12)]
        #[kani::stub(alloc::fmt::format, nofmt)]
        fn $name() {
            let k: u32 = kani::any();
            let lb: u32 = kani::any();
            kani::assume(k <= 8 && lb >= 1 && lb <= 3 && k + lb <= 8);
            let blowup = 1usize << lb;
            let rmd_log: u32 = kani::any();
            kani::assume(rmd_log <= 4);
            let options = FriOptions::new(blowup, $fold, (1usize << rmd_log) - 1);
            // c layer commitments + the remainder commitment
            let mut commits = Vec::new();
            let mut i = 0;
            while i < $c + 1 { commits.push(PD2::mk(i as u128 + 1, 8)); i += 1; }
            let mut ch = StubCh { commits };
            let mut coin = CtrCoin::new(&[]);
            // degree bound: 2^k - 1 (the documented use) or, one case in two, any bound whose padded domain is the same
            let d: usize = kani::any();
            // 2^(k-1) <= d < 2^k: d + 1 coefficients are padded to 2^k (d an exact power of two included: the domain was mis-sized there)
            kani::assume(d < (1usize << k) && d + 1 > (1usize << k) / 2);
            let pow2 = d + 1 == (1usize << k);
            let res = FriVerifier::<T, StubCh, PH2, CtrCoin>::new(&mut ch, &mut coin, options.clone(), d);
            // expected: before each of the c folding steps the number of coefficients is divisible by the folding factor
            let mut divisible = true;
            let mut m = d + 1;
            let mut i = 0;
            while i < $c { if m % $fold != 0 { divisible = false; } m /= $fold; i += 1; }
            let lf = ($fold as usize).ilog2();
            if pow2 { assert!(divisible == (lf * $c <= k)); }
            assert!(res.is_ok() == divisible);
            if let Ok(v) = &res {
                // the verifier keeps the caller's degree bound (it is what the remainder's degree is checked against)
                assert!(v.max_poly_degree() == d && v.domain_size() == (1usize << k) * blowup && v.num_partitions() == 1);
            }
            kani::cover!(res.is_ok() && !pow2);
            // the honest layer count for this domain is accepted whenever the prover can fold that often at all
            if options.num_fri_layers((1usize << k) * blowup) == $c && divisible { assert!(res.is_ok()); }
            kani::cover!(pow2 && res.is_ok() && options.num_fri_layers((1usize << k) * blowup) == $c);
            kani::cover!($c == 0 || res.is_err());
            core::mem::forget((res, ch));
        }
    };
}
// @ob id=C15 also=C05 tier=quick req=1 to=900 name=c15_verifier_new_f2_c3 funcs="FriVerifier::new,FriOptions::{new,num_fri_layers}" bounds="F_257, folding 2, 3 layers + remainder commitment; degree bound d with 2^(k-1) <= d < 2^k, k + log2(blowup) <= 8" sym="d, k, blowup in {2,4,8}, remainder max degree in {0,1,3,7,15}" enum="folding factor, number of commitments"
c15_verifier_new!(c15_verifier_new_f2_c3, 2, 3);
// @ob id=C15 also=C05 tier=quick req=1 to=900 name=c15_verifier_new_f4_c1 funcs="FriVerifier::new,FriOptions::{new,num_fri_layers}" bounds="F_257, folding 4, 1 layer + remainder commitment; degree bound 2^k - 1, k + log2(blowup) <= 8" sym="k, blowup, remainder max degree" enum="folding factor, number of commitments"
c15_verifier_new!(c15_verifier_new_f4_c1, 4, 1);
// @ob id=C15 also=C05 tier=quick req=1 to=900 name=c15_verifier_new_f4_c2 funcs="FriVerifier::new,FriOptions::{new,num_fri_layers}" bounds="F_257, folding 4, 2 layers + remainder commitment" sym="k, blowup, remainder max degree" enum="folding factor, number of commitments"
c15_verifier_new!(c15_verifier_new_f4_c2, 4, 2);
// @ob id=C15 also=C05 tier=quick req=1 to=900 name=c15_verifier_new_f8_c1 funcs="FriVerifier::new,FriOptions::{new,num_fri_layers}" bounds="F_257, folding 8, 1 layer + remainder commitment" sym="k, blowup, remainder max degree" enum="folding factor, number of commitments"
c15_verifier_new!(c15_verifier_new_f8_c1, 8, 1);
// @ob id=C15 also=C05 tier=quick req=1 to=900 name=c15_verifier_new_f16_c1 funcs="FriVerifier::new,FriOptions::{new,num_fri_layers}" bounds="F_257, folding 16, 1 layer + remainder commitment" sym="k, blowup, remainder max degree" enum="folding factor, number of commitments"
c15_verifier_new!(c15_verifier_new_f16_c1, 16, 1);
// @ob id=C15 also=C05 tier=quick req=1 to=900 name=c15_verifier_new_f2_c0 funcs="FriVerifier::new,FriOptions::{new,num_fri_layers}" bounds="F_257, folding 2, no layer, remainder commitment only" sym="k, blowup, remainder max degree" enum="folding factor, number of commitments"
c15_verifier_new!(c15_verifier_new_f2_c0, 2, 0);
