//! Toy STARK field F_257 (division-free reduction) used to instantiate the repo's generic code.
//! Trusted harness library; listed in every evidence file that uses it.
use core::fmt::{Debug, Display, Formatter};
use core::ops::{Add, AddAssign, Div, DivAssign, Mul, MulAssign, Neg, Sub, SubAssign};
use math::{ExtensibleField, FieldElement, StarkField};
use utils::{AsBytes, ByteReader, ByteWriter, Deserializable, DeserializationError, Randomizable, Serializable};

pub const P: u32 = 257;
pub const TWO_ADICITY: u32 = 8;
pub const GEN: u32 = 3;
// 3 has order 256 = 2^8 in F_257^*
pub const ROOT: u32 = 3;

#[derive(Copy, Clone, Default, PartialEq, Eq)]
#[repr(transparent)]
pub struct T(pub u16);

impl T { pub const fn new(v: u32) -> Self { T((v % P) as u16) } }

impl Debug for T { fn fmt(&self, f: &mut Formatter<'_>) -> core::fmt::Result { write!(f, "{}", self.0) } }
impl Display for T { fn fmt(&self, f: &mut Formatter<'_>) -> core::fmt::Result { write!(f, "{}", self.0) } }

impl Add for T { type Output = T; fn add(self, r: T) -> T { let s = self.0 as u32 + r.0 as u32; T((if s >= P { s - P } else { s }) as u16) } }
impl Sub for T { type Output = T; fn sub(self, r: T) -> T { let s = self.0 as u32 + P - r.0 as u32; T((if s >= P { s - P } else { s }) as u16) } }
impl Mul for T { type Output = T; fn mul(self, r: T) -> T { let z = self.0 as u32 * r.0 as u32; let lo = z & 0xff; let hi = z >> 8; let s = lo + P + P - hi; let s = if s >= P { s - P } else { s }; let s = if s >= P { s - P } else { s }; T(s as u16) } }
impl Div for T { type Output = T; fn div(self, r: T) -> T { self * r.inv() } }
impl Neg for T { type Output = T; fn neg(self) -> T { if self.0 == 0 { self } else { T((P - self.0 as u32) as u16) } } }
impl AddAssign for T { fn add_assign(&mut self, r: T) { *self = *self + r } }
impl SubAssign for T { fn sub_assign(&mut self, r: T) { *self = *self - r } }
impl MulAssign for T { fn mul_assign(&mut self, r: T) { *self = *self * r } }
impl DivAssign for T { fn div_assign(&mut self, r: T) { *self = *self / r } }

impl From<u8> for T { fn from(v: u8) -> T { T::new(v as u32) } }
impl From<u16> for T { fn from(v: u16) -> T { T::new(v as u32) } }
impl From<u32> for T { fn from(v: u32) -> T { T::new(v) } }
impl TryFrom<u64> for T { type Error = (); fn try_from(v: u64) -> Result<T, ()> { if v >= P as u64 { Err(()) } else { Ok(T(v as u16)) } } }
impl TryFrom<u128> for T { type Error = (); fn try_from(v: u128) -> Result<T, ()> { if v >= P as u128 { Err(()) } else { Ok(T(v as u16)) } } }
impl<'a> TryFrom<&'a [u8]> for T { type Error = (); fn try_from(b: &'a [u8]) -> Result<T, ()> { if b.len() != 2 { Err(()) } else { let v = u16::from_le_bytes([b[0], b[1]]); if v as u32 >= P { Err(()) } else { Ok(T(v)) } } } }

impl AsBytes for T { fn as_bytes(&self) -> &[u8] { unsafe { core::slice::from_raw_parts(self as *const T as *const u8, 2) } } }
impl Randomizable for T { const VALUE_SIZE: usize = 2; fn from_random_bytes(b: &[u8]) -> Option<T> { T::try_from(b).ok() } }
impl Serializable for T { fn write_into<W: ByteWriter>(&self, t: &mut W) { t.write_u16(self.0) } }
impl Deserializable for T { fn read_from<R: ByteReader>(s: &mut R) -> Result<T, DeserializationError> { let v = s.read_u16()?; if v as u32 >= P { Err(DeserializationError::UnexpectedEOF) } else { Ok(T(v)) } } }

impl FieldElement for T {
    type PositiveInteger = u64;
    type BaseField = T;
    const EXTENSION_DEGREE: usize = 1;
    const ELEMENT_BYTES: usize = 2;
    const IS_CANONICAL: bool = true;
    const ZERO: T = T(0);
    const ONE: T = T(1);
    fn inv(self) -> T {
        // x^(P-2) by fixed loop (P small): table-free
        let mut r = T(1);
        let mut b = self;
        let mut e = P - 2;
        while e > 0 { if e & 1 == 1 { r = r * b; } b = b * b; e >>= 1; }
        r
    }
    fn conjugate(&self) -> T { *self }
    fn base_element(&self, i: usize) -> T { assert!(i == 0); *self }
    fn slice_as_base_elements(e: &[T]) -> &[T] { e }
    fn slice_from_base_elements(e: &[T]) -> &[T] { e }
    fn elements_as_bytes(e: &[T]) -> &[u8] { unsafe { core::slice::from_raw_parts(e.as_ptr() as *const u8, e.len() * 2) } }
    unsafe fn bytes_as_elements(b: &[u8]) -> Result<&[T], DeserializationError> { Ok(core::slice::from_raw_parts(b.as_ptr() as *const T, b.len() / 2)) }
}

impl StarkField for T {
    const MODULUS: u64 = P as u64;
    const MODULUS_BITS: u32 = 9;
    const GENERATOR: T = T(GEN as u16);
    const TWO_ADICITY: u32 = TWO_ADICITY;
    const TWO_ADIC_ROOT_OF_UNITY: T = T(ROOT as u16);
    fn get_modulus_le_bytes() -> Vec<u8> { (P as u16).to_le_bytes().to_vec() }
    fn as_int(&self) -> u64 { self.0 as u64 }
}

// quadratic extension F_257[x]/(x^2 - 3); 3 generates F_257^*, hence is a non-residue
impl ExtensibleField<2> for T {
    fn mul(a: [T; 2], b: [T; 2]) -> [T; 2] {
        [a[0] * b[0] + T(3) * (a[1] * b[1]), a[0] * b[1] + a[1] * b[0]]
    }
    fn mul_base(a: [T; 2], b: T) -> [T; 2] { [a[0] * b, a[1] * b] }
    fn frobenius(x: [T; 2]) -> [T; 2] { [x[0], -x[1]] }
}
// cubic extension F_257[x]/(x^3 - x - 1) (no root in F_257, hence irreducible); frobenius is the F_257-linear map phi -> psi = phi^257
// with psi = 221 + 47 phi + 54 phi^2 and psi^2 = 204 + 239 phi + 209 phi^2 (computed offline; psi^3 = psi + 1 checked there)
impl ExtensibleField<3> for T {
    fn mul(a: [T; 3], b: [T; 3]) -> [T; 3] {
        let c0 = a[0] * b[0];
        let c1 = a[0] * b[1] + a[1] * b[0];
        let c2 = a[0] * b[2] + a[1] * b[1] + a[2] * b[0];
        let c3 = a[1] * b[2] + a[2] * b[1];
        let c4 = a[2] * b[2];
        // phi^3 = phi + 1, phi^4 = phi^2 + phi
        [c0 + c3, c1 + c3 + c4, c2 + c4]
    }
    fn mul_base(a: [T; 3], b: T) -> [T; 3] { [a[0] * b, a[1] * b, a[2] * b] }
    fn frobenius(x: [T; 3]) -> [T; 3] {
        [x[0] + T(221) * x[1] + T(204) * x[2], T(47) * x[1] + T(239) * x[2], T(54) * x[1] + T(209) * x[2]]
    }
}
