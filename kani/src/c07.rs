//! C07 (Engine K part): loops that Engine M does not encode. Termination and zero-handling of the
//! binary-GCD inversions on *every* internal representation of zero reachable through public operations.
use math::fields::{f128, f62, f64};
use math::{FieldElement, StarkField};

use crate::util::nofmt;

// @ob id=C07 tier=quick req=1 to=600 hang=1 hang_domain=4 funcs="f62::BaseElement::{inv,add,neg,sub}" bounds="unwind 6: an exceeded bound means the inversion loop does not terminate on this input" sym="which public expression produced zero" desc="inv(0) = 0 and terminates on both internal representations of zero (0 and M)"
#[kani::proof]
#[kani::unwind(6)]
#[kani::stub(alloc::fmt::format, nofmt)]
fn c07_f62_inv_zero_representations() {
    let one = f62::BaseElement::ONE;
    let which: u8 = kani::any();
    kani::assume(which < 4);
    let z = match which {
        0 => f62::BaseElement::ZERO,
        1 => one + (-one),
        2 => one - one,
        _ => (-one) + one,
    };
    assert!(z == f62::BaseElement::ZERO);
    let r = z.inv();
    assert!(r == f62::BaseElement::ZERO);
    kani::cover!(which == 1);
}

// @ob id=C07 tier=quick req=1 to=600 hang=1 hang_domain=3 funcs="f128::BaseElement::{inv,add,neg,sub}" bounds="unwind 6" sym="which public expression produced zero" desc="inv(0) = 0 and terminates (f128 is canonical: single representation)"
#[kani::proof]
#[kani::unwind(6)]
#[kani::stub(alloc::fmt::format, nofmt)]
fn c07_f128_inv_zero() {
    let one = f128::BaseElement::ONE;
    let which: u8 = kani::any();
    kani::assume(which < 3);
    let z = match which { 0 => f128::BaseElement::ZERO, 1 => one + (-one), _ => one - one };
    assert!(z == f128::BaseElement::ZERO);
    assert!(z.inv() == f128::BaseElement::ZERO);
    kani::cover!(which == 1);
}

// ---- exponentiation: corner cases with a symbolic exponent, real field code (the loop bodies see constants only) ---------------
// base ZERO: 0^0 = 1 and 0^p = 0 for p > 0; base ONE: 1^p = 1 -- for EVERY exponent of the field's PositiveInteger type, through
// both `exp` (constant-time variant where the field has one) and `exp_vartime`.
macro_rules! c07_exp_corner {
    ($name:ident, $F:ty, $int:ty, $unwind:expr) => {
        #[kani::proof]
        #[kani::unwind($unwind)]
        #[kani::stub(alloc::fmt::format, nofmt)]
        fn $name() {
            let p: $int = kani::any();
            let zero = <$F>::ZERO;
            let one = <$F>::ONE;
            let want = if p == 0 { one } else { zero };
            assert!(zero.exp_vartime(p) == want);
            assert!(zero.exp(p) == want);
            assert!(one.exp_vartime(p) == one);
            assert!(one.exp(p) == one);
            kani::cover!(p == 0);
            kani::cover!(p > 1);
        }
    };
}
// @ob id=C07 tier=quick req=1 to=900 name=c07_f64_exp_corner funcs="f64::BaseElement::{exp,exp_vartime}" bounds="bases ZERO and ONE; exponent any u64" sym="the exponent (full 64 bits)" desc="0^0 = 1, 0^p = 0 (p > 0), 1^p = 1"
c07_exp_corner!(c07_f64_exp_corner, f64::BaseElement, u64, 66);
// @ob id=C07 tier=quick req=1 to=900 name=c07_f62_exp_corner funcs="f62::BaseElement::{exp,exp_vartime}" bounds="bases ZERO and ONE; exponent any u64" sym="the exponent (full 64 bits)" desc="0^0 = 1, 0^p = 0 (p > 0), 1^p = 1"
c07_exp_corner!(c07_f62_exp_corner, f62::BaseElement, u64, 66);
// @ob id=C07 tier=quick req=1 to=1200 name=c07_f128_exp_corner funcs="f128::BaseElement::{exp,exp_vartime}" bounds="bases ZERO and ONE; exponent any u128" sym="the exponent (full 128 bits)" desc="0^0 = 1, 0^p = 0 (p > 0), 1^p = 1"
c07_exp_corner!(c07_f128_exp_corner, f128::BaseElement, u128, 130);

// the GENERIC default `exp_vartime` / `exp` of the FieldElement trait, instantiated at the toy field F_257: equal to repeated
// multiplication for every base and every exponent below 32
// @ob id=C07 tier=quick req=1 to=900 funcs="FieldElement::exp_vartime (default method),FieldElement::exp (default method)" bounds="toy field F_257 instantiation of the trait's default methods; exponent < 32" sym="base (all 257 values), exponent" desc="exp_vartime(x, p) = x * x * ... * x (p factors), exp = exp_vartime"
#[kani::proof]
#[kani::unwind(34)]
#[kani::stub(alloc::fmt::format, nofmt)]
fn c07_generic_exp_toy() {
    use crate::toy::T;
    let v: u16 = kani::any();
    kani::assume(v < 257);
    let x = T(v);
    let p: u64 = kani::any();
    kani::assume(p < 32);
    let mut naive = T::ONE;
    let mut i = 0;
    while i < 32 { if i < p { naive = naive * x; } i += 1; }
    assert!(x.exp_vartime(p) == naive);
    assert!(x.exp(p) == naive);
    kani::cover!(p == 31 && v == 3);
    kani::cover!(p == 0 && v == 0);
}
