//! C07 (Engine K part): loops that Engine M does not encode. Termination and zero-handling of the
//! binary-GCD inversions on *every* internal representation of zero reachable through public operations.
use math::fields::{f128, f62, f64};
use math::{FieldElement, StarkField};

use crate::util::nofmt;

// @ob id=C07 tier=quick req=1 to=600 hang=1 hang_domain=4 funcs="f62::BaseElement::{inv,add,neg,sub}" bounds="unwind 6: an exceeded bound means the inversion loop does not terminate on this input" sym="which public expression produced zero" desc="inv(0) = 0 and terminates on both internal representations of zero (0 and M)"
#[kani::proof]
#[kani::unwind(6)]
#[kani::stub(alloc::fmt::format, nofmt)]
fn c07_f62_inv_zero_representations() {
    let one = f62::BaseElement::ONE;
    let which: u8 = kani::any();
    kani::assume(which < 4);
    let z = match which {
        0 => f62::BaseElement::ZERO,
        1 => one + (-one),
        2 => one - one,
        _ => (-one) + one,
    };
    assert!(z == f62::BaseElement::ZERO);
    let r = z.inv();
    assert!(r == f62::BaseElement::ZERO);
    kani::cover!(which == 1);
}

// @ob id=C07 tier=quick req=1 to=600 hang=1 hang_domain=3 funcs="f128::BaseElement::{inv,add,neg,sub}" bounds="unwind 6" sym="which public expression produced zero" desc="inv(0) = 0 and terminates (f128 is canonical: single representation)"
#[kani::proof]
#[kani::unwind(6)]
#[kani::stub(alloc::fmt::format, nofmt)]
fn c07_f128_inv_zero() {
    let one = f128::BaseElement::ONE;
    let which: u8 = kani::any();
    kani::assume(which < 3);
    let z = match which { 0 => f128::BaseElement::ZERO, 1 => one + (-one), _ => one - one };
    assert!(z == f128::BaseElement::ZERO);
    assert!(z.inv() == f128::BaseElement::ZERO);
    kani::cover!(which == 1);
}
