//! C06: parsing arbitrary bytes never panics (Kani's panic/overflow/bounds checks are the oracle).
//! Every harness: fully symbolic byte buffer of the stated size, real parser from /repo, result
//! forgotten (drop glue of error values is not the subject).
use air::{
    proof::{Commitments, Context, OodFrame, Proof, Queries, Table},
    FieldExtension, ProofOptions, TraceInfo,
};
use crypto::{BatchMerkleProof, Hasher, MerkleTree};
use fri::FriProof;
use math::fields::{f128, f62, f64, CubeExtension, QuadExtension};
use utils::{ByteReader, Deserializable, SliceReader};

use crate::hashers::{MixHash, MD};
use crate::toy::T;
use crate::util::nofmt;

type MH = MixHash<T>;

// @ob id=C06 tier=quick req=1 to=240 funcs="ProofOptions::read_from,FieldExtension::read_from" bounds="6 bytes" sym="all 6 bytes"
#[kani::proof]
#[kani::unwind(10)]
#[kani::stub(alloc::fmt::format, nofmt)]
fn c06_proof_options_read_from() {
    let bytes: [u8; 6] = kani::any();
    let mut r = SliceReader::new(&bytes);
    let res = ProofOptions::read_from(&mut r);
    kani::cover!(res.is_ok());
    kani::cover!(res.is_err());
    core::mem::forget(res);
}

// @ob id=C06 tier=quick req=1 to=240 funcs="TraceInfo::read_from" bounds="8 bytes (meta <= 2 bytes readable)" sym="all 8 bytes"
#[kani::proof]
#[kani::unwind(12)]
#[kani::stub(alloc::fmt::format, nofmt)]
fn c06_trace_info_read_from() {
    let bytes: [u8; 8] = kani::any();
    let mut r = SliceReader::new(&bytes);
    let res = TraceInfo::read_from(&mut r);
    kani::cover!(res.is_ok());
    kani::cover!(res.is_err());
    core::mem::forget(res);
}

// @ob id=C06 tier=quick req=1 to=400 funcs="Context::read_from,Context::lde_domain_size,Context::num_modulus_bits" bounds="16 bytes" sym="all 16 bytes"
#[kani::proof]
#[kani::unwind(18)]
#[kani::stub(alloc::fmt::format, nofmt)]
fn c06_context_read_from() {
    let bytes: [u8; 16] = kani::any();
    let mut r = SliceReader::new(&bytes);
    let res = Context::read_from(&mut r);
    kani::cover!(res.is_ok());
    if let Ok(ref c) = res {
        // accessors the verifier calls on an untrusted context
        let _ = c.lde_domain_size();
        let _ = c.num_modulus_bits();
    }
    core::mem::forget(res);
}

// ---- two-stage parsers: stage 1 (`read_from`) over a fully symbolic small buffer; stage 2 (`parse`)
// ---- on a container whose length prefixes are concrete (enumerated: exact, one short, one long, empty)
// ---- and whose contents are symbolic. A symbolic count into read_many/read_vec explodes (DESIGN §1).

// @ob id=C06 tier=quick req=1 to=300 funcs="Commitments::read_from" bounds="6 bytes" sym="all bytes incl. the u16 length prefix"
#[kani::proof]
#[kani::unwind(8)]
#[kani::stub(alloc::fmt::format, nofmt)]
fn c06_commitments_read_from() {
    let bytes: [u8; 6] = kani::any();
    let mut r = SliceReader::new(&bytes);
    let res = Commitments::read_from(&mut r);
    kani::cover!(res.is_ok());
    kani::cover!(res.is_err());
    core::mem::forget(res);
}

macro_rules! c06_commitments_parse {
    ($name:ident, $payload:expr, $segs:expr, $layers:expr) => {
        #[kani::proof]
        #[kani::unwind(12)]
        #[kani::stub(alloc::fmt::format, nofmt)]
        fn $name() {
            let mut bytes: [u8; $payload + 2] = kani::any();
            bytes[0] = $payload as u8;
            bytes[1] = 0;
            let mut r = SliceReader::new(&bytes);
            let c = Commitments::read_from(&mut r).unwrap();
            let p = c.parse::<MH>($segs, $layers);
            // 8-byte digests: exact payload = 8 * (segs + 1 + layers + 1)
            assert!(p.is_ok() == ($payload == 8 * ($segs + $layers + 2)));
            core::mem::forget(p);
        }
    };
}
// @ob id=C06 tier=quick req=1 to=300 name=c06_commitments_parse_exact funcs="Commitments::parse" bounds="1 segment, 0 FRI layers, exact 24-byte payload" sym="payload"
c06_commitments_parse!(c06_commitments_parse_exact, 24, 1, 0);
// @ob id=C06 tier=quick req=1 to=300 name=c06_commitments_parse_short funcs="Commitments::parse" bounds="2 segments, 1 FRI layer, payload one byte short" sym="payload"
c06_commitments_parse!(c06_commitments_parse_short, 39, 2, 1);
// @ob id=C06 tier=quick req=1 to=300 name=c06_commitments_parse_long funcs="Commitments::parse" bounds="1 segment, 1 FRI layer, payload one byte long" sym="payload"
c06_commitments_parse!(c06_commitments_parse_long, 33, 1, 1);
// @ob id=C06 tier=quick req=1 to=300 name=c06_commitments_parse_empty funcs="Commitments::parse" bounds="1 segment, 0 layers, empty payload" sym="-"
c06_commitments_parse!(c06_commitments_parse_empty, 0, 1, 0);

// @ob id=C06 tier=quick req=1 to=600 funcs="Table::from_bytes,Table::get_row,Table::rows" bounds="8 bytes of toy-field elements; rows, cols any in 1..=255" sym="bytes, rows, cols"
#[kani::proof]
#[kani::unwind(10)]
#[kani::stub(alloc::fmt::format, nofmt)]
fn c06_table_from_bytes() {
    let bytes: [u8; 8] = kani::any();
    let rows: usize = kani::any();
    let cols: usize = kani::any();
    // rows = number of queries (ProofOptions allows 1..=255), cols = trace width (TraceInfo allows 1..=255)
    kani::assume(rows >= 1 && rows <= 255 && cols >= 1 && cols <= 255);
    let t = Table::<T>::from_bytes(&bytes, rows, cols);
    kani::cover!(t.is_ok());
    kani::cover!(rows == 255 && cols == 255);
    core::mem::forget(t);
}

// @ob id=C06 tier=quick req=1 to=300 funcs="Queries::read_from" bounds="10 bytes" sym="all bytes incl. both u32 length prefixes"
#[kani::proof]
#[kani::unwind(12)]
#[kani::stub(alloc::fmt::format, nofmt)]
fn c06_queries_read_from() {
    let bytes: [u8; 10] = kani::any();
    let mut r = SliceReader::new(&bytes);
    let res = Queries::read_from(&mut r);
    kani::cover!(res.is_ok());
    kani::cover!(res.is_err());
    core::mem::forget(res);
}

// @ob id=C06 tier=quick req=1 to=300 funcs="OodFrame::read_from" bounds="9 bytes" sym="all bytes incl. the three u16 length prefixes"
#[kani::proof]
#[kani::unwind(11)]
#[kani::stub(alloc::fmt::format, nofmt)]
fn c06_ood_frame_read_from() {
    let bytes: [u8; 9] = kani::any();
    let mut r = SliceReader::new(&bytes);
    let res = OodFrame::read_from(&mut r);
    kani::cover!(res.is_ok());
    kani::cover!(res.is_err());
    core::mem::forget(res);
}

// @ob id=C06 tier=quick req=1 to=600 funcs="FriProof::read_from,FriProof::num_partitions,FriProof::parse_remainder,FriProof::num_remainder_elements" bounds="0 layers; 4 remainder bytes; partitions byte any" sym="remainder bytes, partitions byte"
#[kani::proof]
#[kani::unwind(10)]
#[kani::stub(alloc::fmt::format, nofmt)]
fn c06_fri_proof_no_layers() {
    let mut bytes: [u8; 8] = kani::any();
    bytes[0] = 0; // layers
    bytes[1] = 4; bytes[2] = 0; // remainder bytes
    let mut r = SliceReader::new(&bytes);
    let res = FriProof::read_from(&mut r);
    kani::cover!(res.is_ok());
    kani::cover!(res.is_err());
    if let Ok(p) = &res {
        let _ = p.num_partitions();
        let _ = p.num_layers();
        let rem = p.parse_remainder::<T>();
        kani::cover!(rem.is_ok());
        core::mem::forget(rem);
    }
    core::mem::forget(res);
}

// @ob id=C06 tier=quick req=1 to=600 funcs="MerkleTree::verify" bounds="path length 0..=4; index any usize" sym="path digests, length, index"
#[kani::proof]
#[kani::unwind(7)]
#[kani::stub(alloc::fmt::format, nofmt)]
fn c06_merkle_verify_untrusted_path() {
    let all = [MD(kani::any()), MD(kani::any()), MD(kani::any()), MD(kani::any())];
    let n: usize = kani::any();
    kani::assume(n <= 4);
    let index: usize = kani::any();
    let res = MerkleTree::<MH>::verify(MD(kani::any()), index, &all[..n]);
    kani::cover!(res.is_ok());
    core::mem::forget(res);
}

// @ob id=C06 tier=quick req=1 to=600 funcs="Option<Vec<u8>>::read_from,ByteReader::read_usize,ByteReader::read_many,SliceReader::check_eor" bounds="11 bytes" sym="all bytes (length prefix over the full usize range)"
#[kani::proof]
#[kani::unwind(13)]
#[kani::stub(alloc::fmt::format, nofmt)]
fn c06_option_vec_u8() {
    let bytes: [u8; 11] = kani::any();
    let mut r = SliceReader::new(&bytes);
    let res = Option::<Vec<u8>>::read_from(&mut r);
    kani::cover!(res.is_ok());
    core::mem::forget(res);
}

// @ob id=C06 tier=quick req=1 to=600 funcs="SliceReader::read_slice,SliceReader::read_vec,SliceReader::check_eor,ByteReader::read_string" bounds="4 bytes; requested length any usize" sym="bytes, length"
#[kani::proof]
#[kani::unwind(6)]
#[kani::stub(alloc::fmt::format, nofmt)]
fn c06_slice_reader_any_len() {
    let bytes: [u8; 4] = kani::any();
    let mut r = SliceReader::new(&bytes);
    let _ = r.read_u8();
    let n: usize = kani::any();
    let ok = r.check_eor(n).is_ok();
    let s = r.read_slice(n);
    assert!(s.is_ok() == ok);
    kani::cover!(s.is_ok());
    kani::cover!(s.is_err());
}

// @ob id=C06 tier=quick req=1 to=600 funcs="f64::BaseElement::read_from,f62::BaseElement::read_from,f128::BaseElement::read_from,QuadExtension::read_from,CubeExtension::read_from" bounds="exact element size" sym="all bytes"
#[kani::proof]
#[kani::unwind(4)]
#[kani::stub(alloc::fmt::format, nofmt)]
fn c06_field_elements_read_from() {
    let b: [u8; 48] = kani::any();
    let mut r = SliceReader::new(&b);
    let a = f64::BaseElement::read_from(&mut r);
    core::mem::forget(a);
    let a = f62::BaseElement::read_from(&mut r);
    core::mem::forget(a);
    let a = f128::BaseElement::read_from(&mut r);
    kani::cover!(a.is_ok());
    core::mem::forget(a);
    let mut r = SliceReader::new(&b);
    let a = QuadExtension::<f64::BaseElement>::read_from(&mut r);
    core::mem::forget(a);
    let a = CubeExtension::<f62::BaseElement>::read_from(&mut r);
    kani::cover!(a.is_err());
    core::mem::forget(a);
}

// vacuity twin for the family: the same driver shape with a final assert(false) must be violated
// @ob id=C06 tier=quick req=1 to=240 expect=fail desc="vacuity twin: reachability of the end of a parser harness"
#[kani::proof]
#[kani::unwind(10)]
#[kani::stub(alloc::fmt::format, nofmt)]
fn c06_vacuity_twin() {
    let bytes: [u8; 6] = kani::any();
    let mut r = SliceReader::new(&bytes);
    let res = FieldExtension::read_from(&mut r);
    core::mem::forget(res);
    assert!(false);
}

// @ob id=C06 tier=thorough req=0 to=3000 mem=24 funcs="Proof::from_bytes" bounds="64-byte buffer" sym="all bytes"
#[kani::proof]
#[kani::unwind(66)]
#[kani::stub(alloc::fmt::format, nofmt)]
fn c06_whole_proof_from_bytes() {
    let bytes: [u8; 64] = kani::any();
    let res = Proof::from_bytes(&bytes);
    core::mem::forget(res);
}
