//! C06: parsing arbitrary bytes never panics (Kani's panic/overflow/bounds checks are the oracle).
use air::{proof::Context, FieldExtension, ProofOptions, TraceInfo};
use utils::{ByteReader, Deserializable, SliceReader};

use crate::util::nofmt;

// @ob id=C06 tier=quick req=1 to=120 funcs="ProofOptions::read_from,FieldExtension::read_from" bounds="6 bytes" sym="all 6 bytes"
#[kani::proof]
#[kani::unwind(10)]
#[kani::stub(alloc::fmt::format, nofmt)]
fn c06_proof_options_read_from() {
    let bytes: [u8; 6] = kani::any();
    let mut r = SliceReader::new(&bytes);
    let res = ProofOptions::read_from(&mut r);
    kani::cover!(res.is_ok());
    kani::cover!(res.is_err());
    core::mem::forget(res);
}

// @ob id=C06 tier=quick req=1 to=120 funcs="TraceInfo::read_from" bounds="8 bytes (meta <= 2 bytes readable)" sym="all 8 bytes"
#[kani::proof]
#[kani::unwind(12)]
#[kani::stub(alloc::fmt::format, nofmt)]
fn c06_trace_info_read_from() {
    let bytes: [u8; 8] = kani::any();
    let mut r = SliceReader::new(&bytes);
    let res = TraceInfo::read_from(&mut r);
    kani::cover!(res.is_ok());
    kani::cover!(res.is_err());
    core::mem::forget(res);
}
