//! C06 (verification entry): the steps `verify()` performs on UNTRUSTED proof fields before and while the verifier channel is
//! built -- the acceptance policy (security estimate from the claimed field modulus), seeding the coin from the proof context, the
//! number of unique queries (a separate untrusted byte) handed to `Queries::parse` -- return errors and never panic.
use air::proof::{Context, Proof, Queries};
use air::{Air, FieldExtension, ProofOptions, TraceInfo};
use utils::{Deserializable, Serializable, SliceReader};
use verifier::{verify, AcceptableOptions};

use crate::c04::ToyAir;
use crate::c18::CrHash;
use crate::coins::CtrCoin;
use crate::hashers::{MixHash, PairHash128 as PH};
use crate::toy::T;
use crate::util::nofmt;

macro_rules! c06_queries_parse_count {
    ($name:ident, $n:expr) => {
        #[kani::proof]
        #[kani::unwind(12)]
        #[kani::stub(alloc::fmt::format, nofmt)]
        fn $name() {
            let mut bytes: [u8; 4 + 4 + 4 + 19] = kani::any();
            bytes[0] = 4; bytes[1] = 0; bytes[2] = 0; bytes[3] = 0;
            bytes[8] = 19; bytes[9] = 0; bytes[10] = 0; bytes[11] = 0;
            bytes[12] = 2; bytes[13] = 1; bytes[22] = 1;
            let mut r = SliceReader::new(&bytes);
            let q = Queries::read_from(&mut r).unwrap();
            let p = q.parse::<MixHash<T>, T>(8, $n, 1);
            if p.is_ok() { assert!($n == 2); }
            kani::cover!(true);
            core::mem::forget(p);
        }
    };
}
// the number of queries handed to Queries::parse by verify() is the proof's num_unique_queries byte: any value 0..=255.
// (a symbolic count exhausted memory -- it drives the row loops; the count is enumerated, the payload stays symbolic.)
// @ob id=C06 tier=quick req=1 to=600 fs=1 name=c06_queries_parse_count_0 funcs="Queries::read_from,Queries::parse,Table::from_bytes" bounds="2 elements of values, node vectors [1,1], domain 8; query count 0" sym="values, node digests" enum="query count" desc="Queries::parse with an untrusted query count returns Ok or Err, never panics"
c06_queries_parse_count!(c06_queries_parse_count_0, 0);
// @ob id=C06 tier=quick req=1 to=600 fs=1 name=c06_queries_parse_count_1 funcs="Queries::read_from,Queries::parse,Table::from_bytes" bounds="2 elements of values, node vectors [1,1], domain 8; query count 1" sym="values, node digests" enum="query count" desc="as above"
c06_queries_parse_count!(c06_queries_parse_count_1, 1);
// @ob id=C06 tier=quick req=1 to=600 fs=1 name=c06_queries_parse_count_2 funcs="Queries::read_from,Queries::parse,Table::from_bytes" bounds="2 elements of values, node vectors [1,1], domain 8; query count 2 (matches the values)" sym="values, node digests" enum="query count" desc="as above"
c06_queries_parse_count!(c06_queries_parse_count_2, 2);
// @ob id=C06 tier=quick req=1 to=600 fs=1 name=c06_queries_parse_count_255 funcs="Queries::read_from,Queries::parse,Table::from_bytes" bounds="2 elements of values, node vectors [1,1], domain 8; query count 255" sym="values, node digests" enum="query count" desc="as above"
c06_queries_parse_count!(c06_queries_parse_count_255, 255);

fn opts() -> ProofOptions { ProofOptions::new(2, 2, 0, FieldExtension::None, 2, 1) }
/// a proof whose context is what `Context::read_from` returns for: the toy AIR's trace info and options, and L arbitrary modulus bytes
fn proof_with_modulus(modulus: &[u8]) -> Option<Proof> {
    let mut bytes = TraceInfo::new(1, 8).to_bytes();
    bytes.push(modulus.len() as u8);
    let mut i = 0;
    while i < modulus.len() { bytes.push(modulus[i]); i += 1; }
    let ob = opts().to_bytes();
    let mut i = 0;
    while i < ob.len() { bytes.push(ob[i]); i += 1; }
    let mut r = SliceReader::new(&bytes);
    match Context::read_from(&mut r) {
        Ok(ctx) => { let mut p = Proof::new_dummy(); p.context = ctx; Some(p) },
        Err(_) => None,
    }
}

macro_rules! c06_verify_foreign_modulus {
    ($name:ident, $len:expr) => {
        #[kani::proof]
        #[kani::unwind(16)]
        #[kani::stub(alloc::fmt::format, nofmt)]
        fn $name() {
            let modulus: [u8; $len] = kani::any();
            // any claimed modulus other than the toy field's (257 = bytes [1, 1])
            kani::assume(!($len == 2 && modulus[0] == 1 && modulus[$len - 1] == 1));
            if let Some(proof) = proof_with_modulus(&modulus) {
                let min: u32 = kani::any();
                let res = verify::<ToyAir, PH, CtrCoin>(proof, T(1), &AcceptableOptions::MinConjecturedSecurity(min));
                // a proof made for another field is refused -- by an error value
                assert!(res.is_err());
                kani::cover!(true);
                core::mem::forget(res);
            }
        }
    };
}
// @ob id=C06 also=C18 tier=quick req=1 to=900 fs=1 name=c06_verify_foreign_modulus_1 any_sizes="1,4" funcs="verify,AcceptableOptions::validate,Proof::security_level,Context::num_modulus_bits,Context::to_elements" bounds="toy AIR (1 column, 8 steps, blowup 2); claimed field modulus of 1 byte" sym="modulus bytes, caller's minimum security" enum="modulus length" desc="verify() of a proof whose context claims another field modulus returns an error (no panic, no arithmetic overflow in the security estimate or in the seed construction)"
c06_verify_foreign_modulus!(c06_verify_foreign_modulus_1, 1);
// @ob id=C06 also=C18 tier=thorough req=0 to=2400 fs=1 name=c06_verify_foreign_modulus_2 any_sizes="1,1,4" funcs="verify,AcceptableOptions::validate,Proof::security_level,Context::num_modulus_bits,Context::to_elements" bounds="toy AIR; claimed field modulus of 2 bytes (the toy field's own length), value != 257" sym="modulus bytes, caller's minimum security" enum="modulus length" desc="as above"
c06_verify_foreign_modulus!(c06_verify_foreign_modulus_2, 2);
// @ob id=C06 also=C18 tier=quick req=1 to=900 fs=1 name=c06_verify_foreign_modulus_4 any_sizes="1,1,1,1,4" funcs="verify,AcceptableOptions::validate,Proof::security_level,Context::num_modulus_bits,Context::to_elements" bounds="toy AIR; claimed field modulus of 4 bytes (each half as long as a toy field element)" sym="modulus bytes, caller's minimum security" enum="modulus length" desc="as above"
c06_verify_foreign_modulus!(c06_verify_foreign_modulus_4, 4);
// @ob id=C06 also=C18 tier=quick req=1 to=900 fs=1 name=c06_verify_foreign_modulus_9 any_sizes="1,1,1,1,1,1,1,1,1,4" funcs="verify,AcceptableOptions::validate,Proof::security_level,Context::num_modulus_bits,Context::to_elements" bounds="toy AIR; claimed field modulus of 9 bytes" sym="modulus bytes, caller's minimum security" enum="modulus length" desc="as above"
c06_verify_foreign_modulus!(c06_verify_foreign_modulus_9, 9);

// the security estimate itself on a proof with an untrusted claimed modulus (Proof::security_level is public API)
// @ob id=C18 also=C06 tier=quick req=1 to=900 fs=1 any_sizes="1,1,1" funcs="Proof::security_level,get_conjectured_security,Context::num_modulus_bits" bounds="claimed field modulus of 1..=2 arbitrary bytes; toy AIR parameters" sym="modulus bytes" desc="the conjectured security level of a parsed proof never underflows or panics, whatever field modulus the proof claims, and is 0 when the claimed field is smaller than the LDE domain"
#[kani::proof]
#[kani::unwind(16)]
#[kani::stub(alloc::fmt::format, nofmt)]
fn c18_security_level_untrusted_modulus() {
    let modulus: [u8; 2] = kani::any();
    let one: bool = kani::any();
    let p = if one { proof_with_modulus(&modulus[..1]) } else { proof_with_modulus(&modulus) };
    if let Some(proof) = p {
        let bits = proof.context.num_modulus_bits();
        let level = proof.security_level::<CrHash<128>>(true);
        // LDE domain 16 = 2^4: a claimed field of at most 4 bits gives no security at all
        if bits <= 4 { assert!(level == 0); }
        if bits >= 6 { assert!(level == core::cmp::min(bits - 4, 2) - 1); }
        kani::cover!(bits == 0);
        kani::cover!(bits == 16);
        core::mem::forget(proof);
    }
}
