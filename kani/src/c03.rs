//! C03 (component level): every value the verifier consumes is tied to the bytes of the proof component:
//! accepted second-stage parses consume their section completely and determine it (re-encoding gives the
//! same bytes), and Merkle leaves are recomputed from the opened values. Merkle binding itself is shared
//! with C10 (gen_c10 binding family, `also=C03`).
use air::proof::{Commitments, OodFrame, Queries};
use crypto::{BatchMerkleProof, ElementHasher, Hasher};
use utils::{ByteReader, Deserializable, Serializable, SliceReader};

use crate::hashers::{PairHash64 as PH, PD64 as PD};
use crate::toy::T;
use crate::util::nofmt;

// @ob id=C03 tier=quick req=1 to=900 fs=1 funcs="Commitments::read_from,Commitments::parse,Commitments::new" bounds="26-byte serialized commitments (length prefix concrete = 24), 1 trace segment, 0 FRI layers" sym="payload bytes" desc="accepted => the parsed digests re-encode to exactly the payload"
#[kani::proof]
#[kani::unwind(28)]
#[kani::stub(alloc::fmt::format, nofmt)]
fn c03_commitments_canonical() {
    let mut bytes: [u8; 26] = kani::any();
    bytes[0] = 24; bytes[1] = 0;
    let mut r = SliceReader::new(&bytes);
    let c = Commitments::read_from(&mut r).unwrap();
    let p = c.parse::<PH>(1, 0);
    kani::cover!(p.is_ok());
    if let Ok((tr, cr, fr)) = p {
        let again = Commitments::new::<PH>(tr, cr, fr).to_bytes();
        assert!(again.len() == 26);
        let mut i = 0; while i < 26 { assert!(again[i] == bytes[i]); i += 1; }
    }
}

macro_rules! c03_ood_canonical {
    ($name:ident, $lagr:expr, $nl:expr, $aw:expr) => {
        #[kani::proof]
        #[kani::unwind(24)]
        #[kani::stub(alloc::fmt::format, nofmt)]
        fn $name() {
            // trace states: [2][4 bytes x (1 + aw - lagr columns) x 2]; lagrange: [n][2n bytes]; evaluations: 2 bytes
            const NT: usize = 1 + 4 * (1 + $aw - $lagr);
            const NL: usize = 1 + 2 * $nl;
            let mut bytes: [u8; NT + NL + 2 + 6] = kani::any();
            bytes[0] = NT as u8; bytes[1] = 0; bytes[2] = 2;
            bytes[2 + NT] = NL as u8; bytes[3 + NT] = 0; bytes[4 + NT] = $nl;
            bytes[4 + NT + NL] = 2; bytes[5 + NT + NL] = 0;
            let mut r = SliceReader::new(&bytes);
            let f = OodFrame::read_from(&mut r).unwrap();
            let p = f.parse::<T>(1, $aw, 1);
            kani::cover!(p.is_ok());
            if let Ok((frame, evals)) = p {
                // every payload byte of every section is the little-endian encoding of exactly one value handed to
                // the verifier (so nothing is ignored and the content determines the bytes); counts are concrete
                let el = |o: usize| T(u16::from_le_bytes([bytes[o], bytes[o + 1]]));
                let ncols = 1 + $aw - $lagr;
                assert!(frame.current_row().len() == ncols && frame.next_row().len() == ncols);
                let mut c = 0;
                while c < ncols { assert!(frame.current_row()[c] == el(3 + 4 * c)); assert!(frame.next_row()[c] == el(5 + 4 * c)); c += 1; }
                match frame.lagrange_kernel_frame() {
                    Some(l) => { assert!($lagr == 1 && l.inner().len() == $nl); let mut k = 0; while k < $nl { assert!(l.inner()[k] == el(5 + NT + 2 * k)); k += 1; } },
                    None => assert!($lagr == 0),
                }
                assert!(evals.len() == 1 && evals[0] == el(6 + NT + NL));
            }
        }
    };
}
// @ob id=C03 tier=quick req=1 to=900 fs=1 name=c03_ood_canonical_plain funcs="OodFrame::read_from,OodFrame::parse,OodFrame::set_trace_states,OodFrame::set_constraint_evaluations" bounds="main width 1, no aux, no Lagrange frame" sym="all element bytes" desc="accepted => re-encoding the parsed frame gives the input bytes"
c03_ood_canonical!(c03_ood_canonical_plain, 0, 0, 0);
// @ob id=C03 tier=thorough req=0 to=1800 mem=24 fs=1 name=c03_ood_canonical_lagrange funcs="OodFrame::read_from,OodFrame::parse,OodFrame::set_trace_states,OodFrame::set_constraint_evaluations" bounds="main width 1, aux 1 (the Lagrange column), Lagrange frame of 2 elements" sym="all element bytes" desc="accepted => re-encoding the parsed frame gives the input bytes"
c03_ood_canonical!(c03_ood_canonical_lagrange, 1, 2, 1);

// @ob id=C03 tier=quick req=1 to=900 fs=1 funcs="OodFrame::parse" bounds="a zero Lagrange frame size followed by 1..2 further bytes; all other sections honest" sym="the trailing bytes, elements" desc="bytes after a zero Lagrange frame size are rejected (were ignored)"
#[kani::proof]
#[kani::unwind(12)]
#[kani::stub(alloc::fmt::format, nofmt)]
fn c03_ood_lagrange_trailing_rejected() {
    let mut bytes: [u8; 15] = kani::any();
    bytes[0] = 5; bytes[1] = 0; bytes[2] = 2;            // trace states: frame size 2, 2 elements
    bytes[7] = 2; bytes[8] = 0; bytes[9] = 0;            // lagrange section: 2 bytes: [0, junk]
    bytes[11] = 2; bytes[12] = 0;                        // evaluations: 1 element
    let mut r = SliceReader::new(&bytes);
    let f = OodFrame::read_from(&mut r).unwrap();
    let p = f.parse::<T>(1, 0, 1);
    assert!(p.is_err());
    kani::cover!(true);
    core::mem::forget(p);
}

// @ob id=C03 tier=quick req=1 to=900 fs=1 funcs="Queries::parse,Table::from_bytes,BatchMerkleProof::deserialize" bounds="2 queries x 1 value, node vectors [1,1], domain 8" sym="values, node digests" desc="leaves of the opening are recomputed from the opened values (leaf_i == H(row_i)), values and nodes are the bytes of the component"
#[kani::proof]
#[kani::unwind(12)]
#[kani::stub(alloc::fmt::format, nofmt)]
fn c03_queries_leaves_recomputed() {
    // values: 2 elements (4 bytes); paths: [2][1][8 bytes][1][8 bytes] = 19 bytes
    let mut bytes: [u8; 4 + 4 + 4 + 19] = kani::any();
    bytes[0] = 4; bytes[1] = 0; bytes[2] = 0; bytes[3] = 0;
    bytes[8] = 19; bytes[9] = 0; bytes[10] = 0; bytes[11] = 0;
    bytes[12] = 2; bytes[13] = 1; bytes[22] = 1;
    let mut r = SliceReader::new(&bytes);
    let q = Queries::read_from(&mut r).unwrap();
    let p = q.parse::<PH, T>(8, 2, 1);
    kani::cover!(p.is_ok());
    if let Ok((mp, table)) = p {
        assert!(mp.leaves.len() == 2 && table.num_rows() == 2);
        let mut i = 0;
        while i < 2 {
            assert!(mp.leaves[i] == PH::hash_elements(table.get_row(i)));
            let v = u16::from_le_bytes([bytes[4 + 2 * i], bytes[5 + 2 * i]]);
            assert!(table.get_row(i)[0] == T(v));
            i += 1;
        }
        assert!(mp.nodes.len() == 2 && mp.nodes[0].len() == 1 && mp.nodes[1].len() == 1);
        let n0 = u64::from_le_bytes([bytes[14], bytes[15], bytes[16], bytes[17], bytes[18], bytes[19], bytes[20], bytes[21]]);
        assert!(mp.nodes[0][0] == PD(n0));
        assert!(mp.depth == 3);
    }
}


// value sections that are NOT a whole number of rows for the expected number of queries (trailing bytes that no opened value
// accounts for, or a missing byte) are rejected
macro_rules! c03_queries_value_len {
    ($name:ident, $nbytes:expr) => {
        #[kani::proof]
        #[kani::unwind(12)]
        #[kani::stub(alloc::fmt::format, nofmt)]
        fn $name() {
            // values: $nbytes bytes for 2 queries x 1 two-byte element; paths: [2][1][8 bytes][1][8 bytes] = 19 bytes
            let mut bytes: [u8; 4 + $nbytes + 4 + 19] = kani::any();
            bytes[0] = $nbytes; bytes[1] = 0; bytes[2] = 0; bytes[3] = 0;
            bytes[4 + $nbytes] = 19; bytes[5 + $nbytes] = 0; bytes[6 + $nbytes] = 0; bytes[7 + $nbytes] = 0;
            bytes[8 + $nbytes] = 2; bytes[9 + $nbytes] = 1; bytes[18 + $nbytes] = 1;
            let mut r = SliceReader::new(&bytes);
            let q = Queries::read_from(&mut r).unwrap();
            let p = q.parse::<PH, T>(8, 2, 1);
            assert!(p.is_err());
            kani::cover!(true);
            core::mem::forget(p);
        }
    };
}
// @ob id=C03 also=C06 tier=quick req=1 to=900 fs=1 name=c03_queries_value_len_5 funcs="Queries::read_from,Queries::parse,Table::from_bytes" bounds="5 value bytes for 2 queries of one 2-byte element (one trailing byte)" sym="all value bytes, node digests" enum="length of the value section" desc="a value section with bytes beyond the expected rows is rejected"
c03_queries_value_len!(c03_queries_value_len_5, 5);
// @ob id=C03 also=C06 tier=quick req=1 to=900 fs=1 name=c03_queries_value_len_3 funcs="Queries::read_from,Queries::parse,Table::from_bytes" bounds="3 value bytes for 2 queries of one 2-byte element (one byte missing)" sym="all value bytes, node digests" enum="length of the value section" desc="a short value section is rejected"
c03_queries_value_len!(c03_queries_value_len_3, 3);
// @ob id=C03 also=C06 tier=quick req=1 to=900 fs=1 name=c03_queries_value_len_6 funcs="Queries::read_from,Queries::parse,Table::from_bytes" bounds="6 value bytes for 2 queries of one 2-byte element (one surplus row)" sym="all value bytes, node digests" enum="length of the value section" desc="a value section with a surplus row is rejected"
c03_queries_value_len!(c03_queries_value_len_6, 6);


// sections of the out-of-domain frame that hold MORE values than the AIR's shape consumes are rejected (the surplus values would be
// carried by the proof without being absorbed into the coin or checked against anything)
// @ob id=C03 also=C04,C06 tier=quick req=1 to=900 fs=1 funcs="OodFrame::read_from,OodFrame::parse" bounds="main width 1, no aux; evaluation section of 2 elements where 1 is expected; trace-state section of 3 elements where 2 are expected" sym="all element bytes, which section carries the surplus" desc="an OOD frame with a surplus constraint evaluation or a surplus trace state is rejected"
#[kani::proof]
#[kani::unwind(16)]
#[kani::stub(alloc::fmt::format, nofmt)]
fn c03_ood_surplus_values_rejected() {
    if kani::any() {
        // trace states [5][2][2 elements]; lagrange [1][0]; evaluations [4][2 elements]
        let mut bytes: [u8; 2 + 5 + 2 + 1 + 2 + 4] = kani::any();
        bytes[0] = 5; bytes[1] = 0; bytes[2] = 2;
        bytes[7] = 1; bytes[8] = 0; bytes[9] = 0;
        bytes[10] = 4; bytes[11] = 0;
        let mut r = SliceReader::new(&bytes);
        let f = OodFrame::read_from(&mut r).unwrap();
        let p = f.parse::<T>(1, 0, 1);
        assert!(p.is_err());
        core::mem::forget(p);
    } else {
        // trace states [7][2][3 elements]; lagrange [1][0]; evaluations [2][1 element]
        let mut bytes: [u8; 2 + 7 + 2 + 1 + 2 + 2] = kani::any();
        bytes[0] = 7; bytes[1] = 0; bytes[2] = 2;
        bytes[9] = 1; bytes[10] = 0; bytes[11] = 0;
        bytes[12] = 2; bytes[13] = 0;
        let mut r = SliceReader::new(&bytes);
        let f = OodFrame::read_from(&mut r).unwrap();
        let p = f.parse::<T>(1, 0, 1);
        assert!(p.is_err());
        core::mem::forget(p);
    }
    kani::cover!(true);
}

// @ob id=C03 tier=quick req=1 to=600 expect=fail desc="vacuity twin: an accepted commitments parse reaches the comparison"
#[kani::proof]
#[kani::unwind(28)]
#[kani::stub(alloc::fmt::format, nofmt)]
fn c03_vacuity_twin() {
    let mut bytes: [u8; 26] = kani::any();
    bytes[0] = 24; bytes[1] = 0;
    let mut r = SliceReader::new(&bytes);
    let c = Commitments::read_from(&mut r).unwrap();
    let p = c.parse::<PH>(1, 0);
    if p.is_ok() { assert!(false); }
}
