//! C12: serialization round trip: read_from(to_bytes(x)) == x and the reader is exhausted, for x built
//! by the public constructors from symbolic arguments (documented preconditions assumed only).
use air::{
    proof::{Commitments, Context, OodFrame, Proof, Queries, TraceOodFrame},
    FieldExtension, ProofOptions, TraceInfo,
};
use crypto::BatchMerkleProof;
use math::fields::{f128, f62, f64};
use utils::{ByteReader, Deserializable, ReadAdapter, Serializable, SliceReader};

use crate::hashers::{MixHash, MD};
use crate::toy::T;
use crate::util::{nofmt, Chunked};

type MH = MixHash<T>;

fn rt<X: Serializable + Deserializable + PartialEq>(x: &X) {
    let bytes = x.to_bytes();
    let mut r = SliceReader::new(&bytes);
    let back = X::read_from(&mut r);
    assert!(back.is_ok());
    assert!(back.unwrap() == *x);
    assert!(!r.has_more_bytes());
}

// @ob id=C12 tier=quick req=1 to=300 funcs="ByteWriter::write_usize,ByteReader::read_usize,encoded_len" bounds="none: all 2^64 values" sym="the value"
#[kani::proof]
#[kani::unwind(11)]
#[kani::stub(alloc::fmt::format, nofmt)]
fn c12_usize_all_values() {
    let x: usize = kani::any();
    rt(&x);
    kani::cover!(x == 127);
    kani::cover!(x >= 1 << 56);
}

// @ob id=C12 tier=quick req=1 to=300 funcs="ByteWriter::write_usize,ReadAdapter::read_usize,Cursor::read_usize" bounds="all 2^64 values; 1-byte chunks (adapter) and std::io::Cursor" sym="the value"
#[kani::proof]
#[kani::unwind(12)]
#[kani::stub(alloc::fmt::format, nofmt)]
fn c12_usize_other_readers() {
    let x: usize = kani::any();
    let bytes = x.to_bytes();
    let mut cur = std::io::Cursor::new(&bytes[..]);
    let back = usize::read_from(&mut cur);
    assert!(back.is_ok() && back.unwrap() == x);
    assert!(!cur.has_more_bytes());
    kani::cover!(x > 1 << 60);
}

// @ob id=C12 tier=quick req=1 to=300 funcs="Serializable/Deserializable for u8,u16,u32,u64,u128,bool? ,Option<u64>,tuples,[u8;4]" bounds="full width" sym="all values"
#[kani::proof]
#[kani::unwind(20)]
#[kani::stub(alloc::fmt::format, nofmt)]
fn c12_primitives() {
    rt(&kani::any::<u8>());
    rt(&kani::any::<u16>());
    rt(&kani::any::<u32>());
    rt(&kani::any::<u64>());
    rt(&kani::any::<u128>());
    rt(&kani::any::<Option<u64>>());
    rt(&(kani::any::<u8>(), kani::any::<u32>()));
    rt(&(kani::any::<u16>(), kani::any::<u8>(), kani::any::<u64>()));
    rt(&kani::any::<[u8; 4]>());
    kani::cover!(true);
}

// Vec<u8> / String / Option<Vec<u8>>: a length that went through encode+decode is symbolic for CBMC and a
// symbolic count into read_many explodes (measured: 12 GB). The round trip is therefore decided in two halves that
// share the concrete prefix: (i) to_bytes(v) == prefix(len) ++ payload, (ii) read_from(prefix(len) ++ payload) == v.
// prefix(len) itself round-trips for every usize (c12_usize_all_values).
macro_rules! c12_vec_u8 {
    ($name:ident, $len:expr, $prefix:expr) => {
        #[kani::proof]
        #[kani::unwind(8)]
        #[kani::stub(alloc::fmt::format, nofmt)]
        fn $name() {
            let a: [u8; $len] = kani::any();
            let v: Vec<u8> = a.to_vec();
            let bytes = v.to_bytes();
            assert!(bytes.len() == $len + 1 && bytes[0] == $prefix);
            let mut i = 0; while i < $len { assert!(bytes[i + 1] == a[i]); i += 1; }
            let mut enc = [0u8; $len + 1];
            enc[0] = $prefix;
            let mut i = 0; while i < $len { enc[i + 1] = a[i]; i += 1; }
            let mut r = SliceReader::new(&enc);
            let back = Vec::<u8>::read_from(&mut r);
            assert!(back.is_ok());
            let back = back.unwrap();
            assert!(back.len() == $len);
            let mut i = 0; while i < $len { assert!(back[i] == a[i]); i += 1; }
            assert!(!r.has_more_bytes());
            // Option<Vec<u8>> (the GKR field of a proof): tag byte + the same encoding
            let mut enc2 = [0u8; $len + 2];
            enc2[0] = 1;
            let mut i = 0; while i < $len + 1 { enc2[i + 1] = enc[i]; i += 1; }
            let ob = Some(v).to_bytes();
            assert!(ob.len() == $len + 2);
            let mut i = 0; while i < $len + 2 { assert!(ob[i] == enc2[i]); i += 1; }
            let mut r = SliceReader::new(&enc2);
            let back = Option::<Vec<u8>>::read_from(&mut r);
            assert!(back.is_ok() && back.unwrap().unwrap().len() == $len && !r.has_more_bytes());
            kani::cover!(true);
        }
    };
}
// @ob id=C12 tier=quick req=1 to=600 fs=1 name=c12_vec_u8_0 funcs="Vec<u8>::write_into,Vec<u8>::read_from,Option<Vec<u8>>" bounds="length 0" sym="-"
c12_vec_u8!(c12_vec_u8_0, 0, 1);
// @ob id=C12 tier=quick req=1 to=600 fs=1 name=c12_vec_u8_3 funcs="Vec<u8>::write_into,Vec<u8>::read_from,Option<Vec<u8>>" bounds="length 3" sym="contents"
c12_vec_u8!(c12_vec_u8_3, 3, 7);

// @ob id=C12 tier=quick req=1 to=600 fs=1 funcs="String::write_into,String::read_from" bounds="2 ASCII bytes" sym="contents"
#[kani::proof]
#[kani::unwind(8)]
#[kani::stub(alloc::fmt::format, nofmt)]
fn c12_string() {
    let a: [u8; 2] = kani::any();
    kani::assume(a[0] < 128 && a[1] < 128);
    let s = String::from_utf8(a.to_vec()).unwrap();
    let bytes = s.to_bytes();
    assert!(bytes.len() == 3 && bytes[0] == 5 && bytes[1] == a[0] && bytes[2] == a[1]);
    let enc = [5u8, a[0], a[1]];
    let mut r = SliceReader::new(&enc);
    let back = String::read_from(&mut r);
    assert!(back.is_ok());
    let back = back.unwrap();
    assert!(back.as_bytes().len() == 2 && back.as_bytes()[0] == a[0] && back.as_bytes()[1] == a[1]);
    assert!(!r.has_more_bytes());
    kani::cover!(true);
}

// @ob id=C12 tier=quick req=1 to=300 funcs="ProofOptions::new,ProofOptions::write_into,ProofOptions::read_from" bounds="none: every argument tuple the constructor accepts" sym="queries, blowup, grinding, extension, folding factor, remainder degree"
#[kani::proof]
#[kani::unwind(10)]
#[kani::stub(alloc::fmt::format, nofmt)]
fn c12_proof_options() {
    let q: usize = kani::any();
    let b: usize = kani::any();
    let g: u32 = kani::any();
    let e: u8 = kani::any();
    let ff: usize = kani::any();
    let rd: usize = kani::any();
    // documented constructor preconditions
    kani::assume(q >= 1 && q <= 255);
    kani::assume(b.is_power_of_two() && b >= 2 && b <= 128);
    kani::assume(g <= 32);
    kani::assume(e >= 1 && e <= 3);
    kani::assume(ff == 2 || ff == 4 || ff == 8 || ff == 16);
    kani::assume(rd <= 255 && (rd + 1).is_power_of_two());
    let ext = match e { 1 => FieldExtension::None, 2 => FieldExtension::Quadratic, _ => FieldExtension::Cubic };
    let o = ProofOptions::new(q, b, g, ext, ff, rd);
    rt(&o);
    kani::cover!(q == 255 && rd == 255 && b == 128);
}

// @ob id=C12 tier=quick req=1 to=300 funcs="TraceInfo::new_multi_segment,TraceInfo::write_into,TraceInfo::read_from" bounds="meta empty; every width/rands/length tuple the constructor accepts (usize = 64 bit)" sym="main width, aux width, rands, log2 length"
#[kani::proof]
#[kani::unwind(8)]
#[kani::stub(alloc::fmt::format, nofmt)]
fn c12_trace_info() {
    let main: usize = kani::any();
    let aux: usize = kani::any();
    let rands: usize = kani::any();
    let k: u32 = kani::any();
    // documented constructor preconditions
    kani::assume(main >= 1 && main <= 255 && aux <= 255);
    kani::assume(main + aux <= 255 && rands <= 255 && k >= 3 && k <= 63);
    kani::assume(aux != 0 || rands == 0);
    let ti = TraceInfo::new_multi_segment(main, aux, rands, 1usize << k, vec![]);
    rt(&ti);
    kani::cover!(main + aux == 255);
    kani::cover!(aux > 0 && rands == 0);
    kani::cover!(k == 63);
}

// @ob id=C12 tier=quick req=1 to=300 funcs="TraceInfo::with_meta,TraceInfo::write_into,TraceInfo::read_from" bounds="meta length 3" sym="meta contents, width"
#[kani::proof]
#[kani::unwind(8)]
#[kani::stub(alloc::fmt::format, nofmt)]
fn c12_trace_info_meta() {
    let m: [u8; 3] = kani::any();
    let w: usize = kani::any();
    kani::assume(w >= 1 && w <= 255);
    let ti = TraceInfo::with_meta(w, 16, m.to_vec());
    rt(&ti);
    kani::cover!(true);
}

macro_rules! c12_context {
    ($name:ident, $field:ty) => {
        #[kani::proof]
        #[kani::unwind(20)]
        #[kani::stub(alloc::fmt::format, nofmt)]
        fn $name() {
            let w: usize = kani::any();
            let k: u32 = kani::any();
            let q: usize = kani::any();
            kani::assume(w >= 1 && w <= 255 && k >= 3 && k <= 24 && q >= 1 && q <= 255);
            let o = ProofOptions::new(q, 128, 0, FieldExtension::None, 4, 31);
            let ti = TraceInfo::new(w, 1usize << k);
            let c = Context::new::<$field>(ti, o);
            rt(&c);
            kani::cover!(k == 24);
        }
    };
}
// @ob id=C12 tier=quick req=1 to=600 fs=1 name=c12_context_f64 funcs="Context::new,Context::write_into,Context::read_from" bounds="f64 modulus; trace length 2^3..2^24; blowup 128" sym="width, log2 length, queries"
c12_context!(c12_context_f64, f64::BaseElement);
// @ob id=C12 tier=quick req=1 to=600 fs=1 name=c12_context_f62 funcs="Context::new,Context::write_into,Context::read_from" bounds="f62 modulus; trace length 2^3..2^24; blowup 128" sym="width, log2 length, queries"
c12_context!(c12_context_f62, f62::BaseElement);
// @ob id=C12 tier=quick req=1 to=600 fs=1 name=c12_context_f128 funcs="Context::new,Context::write_into,Context::read_from" bounds="f128 modulus; trace length 2^3..2^24; blowup 128" sym="width, log2 length, queries"
c12_context!(c12_context_f128, f128::BaseElement);

// @ob id=C12 tier=quick req=1 to=600 funcs="Commitments::new,Commitments::write_into,Commitments::read_from,Commitments::parse" bounds="1 trace root, 1 constraint root, 2 FRI roots" sym="all digests"
#[kani::proof]
#[kani::unwind(36)]
#[kani::stub(alloc::fmt::format, nofmt)]
fn c12_commitments() {
    let t = MD(kani::any());
    let c = MD(kani::any());
    let f0 = MD(kani::any());
    let f1 = MD(kani::any());
    let cm = Commitments::new::<MH>(vec![t], c, vec![f0, f1]);
    rt(&cm);
    let (tr, cr, fr) = cm.parse::<MH>(1, 1).unwrap();
    assert!(tr.len() == 1 && tr[0] == t && cr == c && fr.len() == 2 && fr[0] == f0 && fr[1] == f1);
    kani::cover!(true);
}

// @ob id=C12 tier=quick req=1 to=900 fs=1 funcs="Queries::new,Queries::write_into,Queries::read_from,BatchMerkleProof::serialize_nodes" bounds="2 queries x 2 toy-field values; node vectors [1,2]" sym="values, digests"
#[kani::proof]
#[kani::unwind(34)]
#[kani::stub(alloc::fmt::format, nofmt)]
fn c12_queries() {
    let av = |_: ()| { let v: u16 = kani::any(); kani::assume(v < 257); T(v) };
    let mp = BatchMerkleProof::<MH> {
        leaves: vec![MD(kani::any()), MD(kani::any())],
        nodes: vec![vec![MD(kani::any())], vec![MD(kani::any()), MD(kani::any())]],
        depth: 3,
    };
    let q = Queries::new::<MH, T>(mp, vec![vec![av(()), av(())], vec![av(()), av(())]]);
    let bytes = q.to_bytes();
    let mut r = SliceReader::new(&bytes);
    let back = Queries::read_from(&mut r);
    assert!(back.is_ok());
    assert!(back.unwrap() == q);
    assert!(!r.has_more_bytes());
    kani::cover!(true);
}

// @ob id=C12 tier=quick req=1 to=900 funcs="OodFrame::set_trace_states,OodFrame::set_constraint_evaluations,OodFrame::write_into,OodFrame::read_from,OodFrame::parse" bounds="main width 2, aux 0, 2 evaluations" sym="all elements"
#[kani::proof]
#[kani::unwind(12)]
#[kani::stub(alloc::fmt::format, nofmt)]
fn c12_ood_frame() {
    let av = |_: ()| { let v: u16 = kani::any(); kani::assume(v < 257); T(v) };
    let cur = vec![av(()), av(())];
    let nxt = vec![av(()), av(())];
    let ev = vec![av(()), av(())];
    let tf = TraceOodFrame::new(cur.clone(), nxt.clone(), 2, None);
    let mut f = OodFrame::default();
    let _d = f.set_trace_states::<T, MH>(&tf);
    f.set_constraint_evaluations(&ev);
    rt(&f);
    let (pf, pe) = f.parse::<T>(2, 0, 2).unwrap();
    assert!(pf.current_row()[0] == cur[0] && pf.current_row()[1] == cur[1]);
    assert!(pf.next_row()[0] == nxt[0] && pf.next_row()[1] == nxt[1]);
    assert!(pe[0] == ev[0] && pe[1] == ev[1]);
    kani::cover!(true);
}

macro_rules! c12_bmp_nodes {
    ($name:ident, $shape:expr, $nleaves:expr) => {
        #[kani::proof]
        #[kani::unwind(12)]
        #[kani::stub(alloc::fmt::format, nofmt)]
        fn $name() {
            let shape: &[usize] = &$shape;
            let mut nodes: Vec<Vec<MD>> = Vec::new();
            for &n in shape { let mut v = Vec::new(); for _ in 0..n { v.push(MD(kani::any())); } nodes.push(v); }
            let mut leaves = Vec::new();
            for _ in 0..$nleaves { leaves.push(MD(kani::any())); }
            let p = BatchMerkleProof::<MH> { leaves: leaves.clone(), nodes, depth: 3 };
            let bytes = p.serialize_nodes();
            let mut r = SliceReader::new(&bytes);
            let back = BatchMerkleProof::<MH>::deserialize(&mut r, leaves, 3);
            assert!(back.is_ok());
            assert!(back.unwrap() == p);
            assert!(!r.has_more_bytes());
            kani::cover!(true);
        }
    };
}
// @ob id=C12 tier=quick req=1 to=900 fs=1 name=c12_bmp_nodes_a funcs="BatchMerkleProof::serialize_nodes,BatchMerkleProof::deserialize" bounds="node vectors [2,0,1], 3 leaves" sym="digests"
c12_bmp_nodes!(c12_bmp_nodes_a, [2, 0, 1], 3);
// @ob id=C12 tier=quick req=1 to=900 fs=1 name=c12_bmp_nodes_b funcs="BatchMerkleProof::serialize_nodes,BatchMerkleProof::deserialize" bounds="node vectors [3], 1 leaf" sym="digests"
c12_bmp_nodes!(c12_bmp_nodes_b, [3], 1);

// @ob id=C12 tier=thorough req=0 to=3000 fs=1 mem=24 funcs="Proof::new_dummy,Proof::to_bytes,Proof::from_bytes" bounds="the dummy proof; nonce and unique-query count symbolic" sym="pow nonce, num_unique_queries, gkr option"
#[kani::proof]
#[kani::unwind(20)]
#[kani::stub(alloc::fmt::format, nofmt)]
fn c12_proof_dummy() {
    let mut p = Proof::new_dummy();
    p.pow_nonce = kani::any();
    p.num_unique_queries = kani::any();
    if kani::any() { p.gkr_proof = Some(vec![kani::any(), kani::any()]); }
    let bytes = p.to_bytes();
    let back = Proof::from_bytes(&bytes);
    assert!(back.is_ok());
    assert!(back.unwrap() == p);
    kani::cover!(true);
}

// @ob id=C12 tier=quick req=1 to=300 funcs="f128::BaseElement::{new,write_into,read_from}" bounds="full width" sym="the element"
#[kani::proof]
#[kani::unwind(4)]
#[kani::stub(alloc::fmt::format, nofmt)]
fn c12_f128_element() {
    let v: u128 = kani::any();
    let x = f128::BaseElement::new(v);
    rt(&x);
    kani::cover!(true);
}


// FRI proofs whose remainder section is NOT a power-of-two number of BYTES (e.g. 2 cubic elements of 6 bytes over the toy field;
// 4 elements of 24 bytes over the 64-bit field's cubic extension) decode to a value that re-encodes to the same bytes
macro_rules! c12_fri_proof_remainder_bytes {
    ($name:ident, $len:expr) => {
        #[kani::proof]
        #[kani::unwind(30)]
        #[kani::stub(alloc::fmt::format, nofmt)]
        fn $name() {
            use math::fields::CubeExtension;
            // [0 layers][u16 remainder length][remainder bytes][partition exponent 0]
            let mut bytes: [u8; 1 + 2 + $len + 1] = kani::any();
            bytes[0] = 0; bytes[1] = $len; bytes[2] = 0; bytes[3 + $len] = 0;
            let mut r = SliceReader::new(&bytes);
            let p = fri::FriProof::read_from(&mut r);
            assert!(p.is_ok());
            assert!(!r.has_more_bytes());
            let p = p.unwrap();
            let again = p.to_bytes();
            assert!(again.len() == bytes.len());
            let i: usize = kani::any();
            kani::assume(i < bytes.len());
            assert!(again[i] == bytes[i]);
            // canonical coordinates: the remainder parses as ($len / 6) cubic toy-field elements when that count is a power of two
            let mut canonical = true;
            let mut k = 0;
            while k < $len / 2 { if u16::from_le_bytes([bytes[3 + 2 * k], bytes[4 + 2 * k]]) >= 257 { canonical = false; } k += 1; }
            let rem = p.parse_remainder::<CubeExtension<T>>();
            if $len % 6 == 0 && (($len / 6) as usize).is_power_of_two() { assert!(rem.is_ok() == canonical); } else { assert!(rem.is_err()); }
            kani::cover!(canonical);
            core::mem::forget((p, rem));
        }
    };
}
// @ob id=C12 tier=quick req=1 to=900 fs=1 name=c12_fri_proof_remainder_12 funcs="FriProof::read_from,FriProof::write_into,FriProof::parse_remainder" bounds="no layers; remainder of 12 bytes (2 cubic toy-field elements)" sym="all remainder bytes" enum="remainder length"
c12_fri_proof_remainder_bytes!(c12_fri_proof_remainder_12, 12);
// @ob id=C12 tier=quick req=1 to=900 fs=1 name=c12_fri_proof_remainder_6 funcs="FriProof::read_from,FriProof::write_into,FriProof::parse_remainder" bounds="no layers; remainder of 6 bytes (1 cubic toy-field element)" sym="all remainder bytes" enum="remainder length"
c12_fri_proof_remainder_bytes!(c12_fri_proof_remainder_6, 6);
// @ob id=C12 tier=quick req=1 to=900 fs=1 name=c12_fri_proof_remainder_10 funcs="FriProof::read_from,FriProof::write_into,FriProof::parse_remainder" bounds="no layers; remainder of 10 bytes (not a whole number of cubic elements)" sym="all remainder bytes" enum="remainder length"
c12_fri_proof_remainder_bytes!(c12_fri_proof_remainder_10, 10);

// @ob id=C12 tier=quick req=1 to=300 expect=fail desc="vacuity twin for the round-trip family"
#[kani::proof]
#[kani::unwind(11)]
#[kani::stub(alloc::fmt::format, nofmt)]
fn c12_vacuity_twin() {
    let x: usize = kani::any();
    rt(&x);
    assert!(false);
}
