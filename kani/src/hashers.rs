//! Harness-library hashers (trusted, listed in evidence):
//!  * `PairHash64` / `PairHash128`: transparent, injective (inside the width budget) pairing hashers over
//!    the toy field; digest is ONE machine word `(width << K) | bits` (no struct padding).
//!    They stand for "the real hash is collision resistant" (free-algebra model).
//!  * `MixHash<B>`: cheap non-injective mixer over any base field, for properties that do not need binding.
use core::marker::PhantomData;

use crypto::{Digest, ElementHasher, Hasher};
use math::{FieldElement, StarkField};
use utils::{ByteReader, ByteWriter, Deserializable, DeserializationError, Serializable};

use crate::toy::T;

// ---------------------------------------------------------------------------------------------
#[derive(Copy, Clone, Debug, Default, PartialEq, Eq)]
#[repr(transparent)]
pub struct PD64(pub u64);
impl PD64 {
    pub const VBITS: u64 = 58;
    pub const fn mk(v: u64, w: u64) -> PD64 { PD64((w << 58) | v) }
    pub const fn v(self) -> u64 { self.0 & ((1 << 58) - 1) }
    pub const fn w(self) -> u64 { self.0 >> 58 }
}
impl Digest for PD64 {
    fn as_bytes(&self) -> [u8; 32] { let mut r = [0u8; 32]; r[..8].copy_from_slice(&self.0.to_le_bytes()); r }
}
impl Serializable for PD64 { fn write_into<W: ByteWriter>(&self, t: &mut W) { t.write_u64(self.0) } }
impl Deserializable for PD64 {
    fn read_from<R: ByteReader>(s: &mut R) -> Result<Self, DeserializationError> { Ok(PD64(s.read_u64()?)) }
}
#[derive(Debug, Clone, Copy, PartialEq, Eq)]
pub struct PairHash64;
impl Hasher for PairHash64 {
    type Digest = PD64;
    const COLLISION_RESISTANCE: u32 = 128;
    fn hash(bytes: &[u8]) -> PD64 {
        let mut acc = PD64::mk(1, 1);
        for x in bytes { acc = PD64::mk(((acc.v() << 8) | *x as u64) & ((1 << 58) - 1), (acc.w() + 8) & 63); }
        acc
    }
    fn merge(x: &[PD64; 2]) -> PD64 {
        let (a, b) = (x[0], x[1]);
        let bw = b.w();
        let v = (((a.v() << bw) | b.v()) << 6) | bw;
        PD64::mk(v & ((1 << 58) - 1), (a.w() + bw + 6) & 63)
    }
    fn merge_with_int(seed: PD64, value: u64) -> PD64 {
        PD64::mk(((seed.v() << 16) | (value & 0xffff)) & ((1 << 58) - 1), (seed.w() + 16) & 63)
    }
}
impl ElementHasher for PairHash64 {
    type BaseField = T;
    fn hash_elements<E: FieldElement<BaseField = T>>(e: &[E]) -> PD64 {
        let b = E::slice_as_base_elements(e);
        let mut acc = PD64::mk(1, 1);
        for x in b { acc = PD64::mk(((acc.v() << 9) | x.as_int()) & ((1 << 58) - 1), (acc.w() + 9) & 63); }
        acc
    }
}

// ---------------------------------------------------------------------------------------------
#[derive(Copy, Clone, Debug, Default, PartialEq, Eq)]
#[repr(transparent)]
pub struct PD128(pub u128);
impl PD128 {
    pub const VBITS: u128 = 121;
    pub const M: u128 = (1u128 << 121) - 1;
    pub const fn mk(v: u128, w: u128) -> PD128 { PD128((w << 121) | v) }
    pub const fn v(self) -> u128 { self.0 & Self::M }
    pub const fn w(self) -> u128 { self.0 >> 121 }
}
impl Digest for PD128 {
    fn as_bytes(&self) -> [u8; 32] { let mut r = [0u8; 32]; r[..16].copy_from_slice(&self.0.to_le_bytes()); r }
}
impl Serializable for PD128 { fn write_into<W: ByteWriter>(&self, t: &mut W) { t.write_u128(self.0) } }
impl Deserializable for PD128 {
    fn read_from<R: ByteReader>(s: &mut R) -> Result<Self, DeserializationError> { Ok(PD128(s.read_u128()?)) }
}
#[derive(Debug, Clone, Copy, PartialEq, Eq)]
pub struct PairHash128;
impl Hasher for PairHash128 {
    type Digest = PD128;
    const COLLISION_RESISTANCE: u32 = 128;
    fn hash(bytes: &[u8]) -> PD128 {
        let mut acc = PD128::mk(1, 1);
        for x in bytes { acc = PD128::mk(((acc.v() << 8) | *x as u128) & PD128::M, (acc.w() + 8) & 127); }
        acc
    }
    fn merge(x: &[PD128; 2]) -> PD128 {
        let (a, b) = (x[0], x[1]);
        let bw = b.w();
        let v = (((a.v() << bw) | b.v()) << 7) | bw;
        PD128::mk(v & PD128::M, (a.w() + bw + 7) & 127)
    }
    fn merge_with_int(seed: PD128, value: u64) -> PD128 {
        PD128::mk(((seed.v() << 16) | ((value as u128) & 0xffff)) & PD128::M, (seed.w() + 16) & 127)
    }
}
impl ElementHasher for PairHash128 {
    type BaseField = T;
    fn hash_elements<E: FieldElement<BaseField = T>>(e: &[E]) -> PD128 {
        let b = E::slice_as_base_elements(e);
        let mut acc = PD128::mk(1, 1);
        for x in b { acc = PD128::mk(((acc.v() << 9) | x.as_int() as u128) & PD128::M, (acc.w() + 9) & 127); }
        acc
    }
}

// ---------------------------------------------------------------------------------------------
#[derive(Copy, Clone, Debug, Default, PartialEq, Eq)]
#[repr(transparent)]
pub struct MD(pub u64);
impl Digest for MD {
    fn as_bytes(&self) -> [u8; 32] { let mut r = [0u8; 32]; r[..8].copy_from_slice(&self.0.to_le_bytes()); r }
}
impl Serializable for MD { fn write_into<W: ByteWriter>(&self, t: &mut W) { t.write_u64(self.0) } }
impl Deserializable for MD {
    fn read_from<R: ByteReader>(s: &mut R) -> Result<Self, DeserializationError> { Ok(MD(s.read_u64()?)) }
}
#[derive(Debug, Clone, Copy, PartialEq, Eq)]
pub struct MixHash<B: StarkField>(PhantomData<B>);
fn mix(acc: u64, x: u64) -> u64 { acc.rotate_left(9) ^ x ^ 0x9e37_79b9_7f4a_7c15 }
impl<B: StarkField> Hasher for MixHash<B> {
    type Digest = MD;
    const COLLISION_RESISTANCE: u32 = 128;
    fn hash(bytes: &[u8]) -> MD { let mut a = bytes.len() as u64; for x in bytes { a = mix(a, *x as u64); } MD(a) }
    fn merge(x: &[MD; 2]) -> MD { MD(mix(mix(2, x[0].0), x[1].0)) }
    fn merge_with_int(seed: MD, value: u64) -> MD { MD(mix(mix(3, seed.0), value)) }
}
impl<B: StarkField> ElementHasher for MixHash<B> {
    type BaseField = B;
    fn hash_elements<E: FieldElement<BaseField = B>>(e: &[E]) -> MD {
        let b = E::elements_as_bytes(e);
        let mut a = b.len() as u64;
        for x in b { a = mix(a, *x as u64); }
        MD(a)
    }
}
