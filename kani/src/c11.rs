//! C11 (sponge encoding, Engine K): the Rescue hashers' byte/element absorption is total and injective.
//! The permutation is stubbed by a transparent recorder (`#[kani::stub]`), so what is decided is the ENCODING of
//! the input into the sequence of states handed to the permutation -- not the permutation (MDS: Engine M).
//! `BaseElement::new` (f64) is stubbed by the identity embedding on [0, M) (asserted in the stub): injectivity
//! of the byte -> element encoding does not depend on the Montgomery map.
use crypto::hashers::{Rp62_248, Rp64_256, RpJive64_256};
use crypto::{ElementHasher, Hasher};
use math::fields::f64::BaseElement as F;
use math::FieldElement;

use crate::util::nofmt;

const M64: u64 = 0xFFFF_FFFF_0000_0001;
/// `BaseElement::new` reduces its argument modulo M (documented); any additive bijection of residues serves for the
/// encoding question, so the Montgomery map is replaced by the identity embedding of `v mod M`.
fn new_stub(v: u64) -> F { F::from_mont(if v >= M64 { v - M64 } else { v }) }

const ROWS: usize = 4;
static mut LOG: [[u64; 12]; ROWS] = [[0; 12]; ROWS];
static mut NLOG: usize = 0;
/// transparent "permutation": records the state it is given, then rotates and tweaks it so that later
/// absorption cannot cancel what was absorbed before
fn perm_stub(state: &mut [F; 12]) {
    unsafe {
        let p = core::ptr::addr_of_mut!(LOG);
        let n = NLOG;
        if n < ROWS { let mut i = 0; while i < 12 { (*p)[n][i] = state[i].inner(); i += 1; } }
        NLOG = n + 1;
    }
    let s0 = state[0];
    let mut i = 0; while i < 11 { state[i] = state[i + 1]; i += 1; }
    state[11] = s0 + F::ONE;
}
fn perm_stub8(state: &mut [F; 8]) {
    unsafe {
        let p = core::ptr::addr_of_mut!(LOG);
        let n = NLOG;
        if n < ROWS { let mut i = 0; while i < 8 { (*p)[n][i] = state[i].inner(); i += 1; } }
        NLOG = n + 1;
    }
    let s0 = state[0];
    let mut i = 0; while i < 7 { state[i] = state[i + 1]; i += 1; }
    state[7] = s0 + F::ONE;
}
fn reset() { unsafe { NLOG = 0; LOG = [[0; 12]; ROWS]; } }
fn snapshot() -> ([[u64; 12]; ROWS], usize) { unsafe { (LOG, NLOG) } }

macro_rules! total {
    ($name:ident, $H:ty, $perm:path, $stub:path, $rate:expr, $N:expr, $unw:expr) => {
        #[kani::proof]
        #[kani::unwind($unw)]
        #[kani::stub(alloc::fmt::format, nofmt)]
        #[kani::stub($perm, $stub)]
        #[kani::stub(F::new, new_stub)]
        fn $name() {
            let a: [u8; $N] = kani::any();
            let la: usize = kani::any();
            kani::assume(la <= $N);
            reset();
            let _ = <$H>::hash(&a[..la]);
            let (_, n) = snapshot();
            // one permutation per started rate block of 8 seven-byte chunks (at least none for the empty string)
            let chunks = (la + 6) / 7;
            assert!(n == (chunks + $rate - 1) / $rate);
            kani::cover!(la == $N);
            kani::cover!(la == 0);
        }
    };
}
// @ob id=C11 tier=quick req=1 to=900 name=c11_rp64_hash_total_64 funcs="Rp64_256::hash" bounds="byte strings of every length 0..=64 (up to 10 chunks = 2 rate blocks); permutation stubbed" sym="length and all bytes" desc="hashing terminates without panic for every length and applies one permutation per started rate block"
total!(c11_rp64_hash_total_64, Rp64_256, Rp64_256::apply_permutation, perm_stub, 8, 64, 70);
// @ob id=C11 tier=quick req=1 to=900 name=c11_rpjive_hash_total_64 funcs="RpJive64_256::hash" bounds="byte strings of every length 0..=64; permutation stubbed" sym="length and all bytes" desc="hashing terminates without panic for every length and applies one permutation per started rate block"
total!(c11_rpjive_hash_total_64, RpJive64_256, RpJive64_256::apply_permutation, perm_stub8, 4, 64, 70);
// @ob id=C11 tier=thorough req=0 to=2400 name=c11_rp64_hash_total_120 funcs="Rp64_256::hash" bounds="byte strings of every length 0..=120 (3 rate blocks); permutation stubbed" sym="length and all bytes" desc="hashing terminates without panic for every length"
total!(c11_rp64_hash_total_120, Rp64_256, Rp64_256::apply_permutation, perm_stub, 8, 120, 126);

macro_rules! injective {
    ($name:ident, $H:ty, $perm:path, $stub:path, $N:expr, $unw:expr) => {
        #[kani::proof]
        #[kani::unwind($unw)]
        #[kani::stub(alloc::fmt::format, nofmt)]
        #[kani::stub($perm, $stub)]
        #[kani::stub(F::new, new_stub)]
        fn $name() {
            let a: [u8; $N] = kani::any();
            let b: [u8; $N] = kani::any();
            let la: usize = kani::any();
            let lb: usize = kani::any();
            kani::assume(la <= $N && lb <= $N);
            reset();
            let _ = <$H>::hash(&a[..la]);
            let (log_a, n_a) = snapshot();
            reset();
            let _ = <$H>::hash(&b[..lb]);
            let (log_b, n_b) = snapshot();
            let mut same = n_a == n_b;
            let mut r = 0;
            while r < ROWS { let mut i = 0; while i < 12 { if log_a[r][i] != log_b[r][i] { same = false; } i += 1; } r += 1; }
            if same {
                // the sequences of absorbed states agree => same string (length and trailing zeros included)
                assert!(la == lb);
                let mut k = 0; while k < $N { if k < la { assert!(a[k] == b[k]); } k += 1; }
            }
            kani::cover!(same && la == $N);
        }
    };
}
// @ob id=C11 tier=quick req=1 to=1200 name=c11_rp64_hash_injective_16 funcs="Rp64_256::hash" bounds="two byte strings of symbolic lengths 0..=16; permutation stubbed by a transparent recorder" sym="both lengths, all bytes" desc="equal sequences of absorbed sponge states => equal strings: inputs that differ only in length or trailing zero bytes are distinguished"
injective!(c11_rp64_hash_injective_16, Rp64_256, Rp64_256::apply_permutation, perm_stub, 16, 22);
// @ob id=C11 tier=quick req=1 to=1200 name=c11_rpjive_hash_injective_16 funcs="RpJive64_256::hash" bounds="two byte strings of symbolic lengths 0..=16; permutation stubbed by a transparent recorder" sym="both lengths, all bytes" desc="equal sequences of absorbed sponge states => equal strings"
injective!(c11_rpjive_hash_injective_16, RpJive64_256, RpJive64_256::apply_permutation, perm_stub8, 16, 22);
// @ob id=C11 tier=thorough req=0 to=3000 mem=24 name=c11_rp64_hash_injective_60 funcs="Rp64_256::hash" bounds="two byte strings of symbolic lengths 0..=60 (crosses the rate-block boundary at 56 bytes)" sym="both lengths, all bytes" desc="equal sequences of absorbed sponge states => equal strings"
injective!(c11_rp64_hash_injective_60, Rp64_256, Rp64_256::apply_permutation, perm_stub, 60, 66);

// @ob id=C11 tier=quick req=1 to=900 funcs="Rp64_256::merge,Rp64_256::hash_elements" bounds="two digests (8 elements)" sym="all 8 digest elements" desc="merge(a, b) presents the sponge with the same state as hash_elements(a || b)"
#[kani::proof]
#[kani::unwind(14)]
#[kani::stub(alloc::fmt::format, nofmt)]
#[kani::stub(Rp64_256::apply_permutation, perm_stub)]
#[kani::stub(F::new, new_stub)]
fn c11_rp64_merge_is_hash_of_concatenation() {
    use crypto::hashers::Rp64_256 as H;
    let mut e = [F::ZERO; 8];
    let mut i = 0; while i < 8 { let v: u64 = kani::any(); kani::assume(v < M64); e[i] = F::from_mont(v); i += 1; }
    reset();
    let _ = H::hash_elements(&e);
    let (log_h, n_h) = snapshot();
    reset();
    let da = <H as Hasher>::Digest::new([e[0], e[1], e[2], e[3]]);
    let db = <H as Hasher>::Digest::new([e[4], e[5], e[6], e[7]]);
    let _ = H::merge(&[da, db]);
    let (log_m, n_m) = snapshot();
    assert!(n_h == 1 && n_m == 1);
    let mut k = 0; while k < 12 { assert!(log_h[0][k] == log_m[0][k]); k += 1; }
    kani::cover!(true);
}

// @ob id=C11 also=C19 tier=quick req=1 to=900 funcs="Rp64_256::merge_with_int" bounds="one seed digest, two 64-bit integers (below / at / above the modulus)" sym="seed elements, both integers (full 64 bits)" desc="merge_with_int is injective in the integer: different integers present different sponge states"
#[kani::proof]
#[kani::unwind(14)]
#[kani::stub(alloc::fmt::format, nofmt)]
#[kani::stub(Rp64_256::apply_permutation, perm_stub)]
#[kani::stub(F::new, new_stub)]
fn c11_rp64_merge_with_int_injective() {
    use crypto::hashers::Rp64_256 as H;
    let mut e = [F::ZERO; 4];
    let mut i = 0; while i < 4 { let v: u64 = kani::any(); kani::assume(v < M64); e[i] = F::from_mont(v); i += 1; }
    let seed = <H as Hasher>::Digest::new(e);
    let x: u64 = kani::any();
    let y: u64 = kani::any();
    reset();
    let dx = H::merge_with_int(seed, x);
    let (lx, nx) = snapshot();
    reset();
    let dy = H::merge_with_int(seed, y);
    let (ly, ny) = snapshot();
    // under Kani the recorder stub has run exactly once per call; in a NATIVE replay stubs are not applied (nx == 0) and the real
    // permutation ran: then the real digests are compared instead (a collision of real digests for x != y is the violation itself)
    assert!((nx == 1 && ny == 1) || (nx == 0 && ny == 0));
    let mut same = true;
    let mut k = 0; while k < 12 { if lx[0][k] != ly[0][k] { same = false; } k += 1; }
    if nx == 0 { same = dx == dy; }
    if same { assert!(x == y); }
    kani::cover!(same);
    kani::cover!(x >= M64 && y < M64);
}

// @ob id=C11 also=C19 tier=quick req=1 to=900 funcs="RpJive64_256::merge_with_int" bounds="one seed digest, two 64-bit integers" sym="seed elements, both integers (full 64 bits)" desc="merge_with_int is injective in the integer"
#[kani::proof]
#[kani::unwind(14)]
#[kani::stub(alloc::fmt::format, nofmt)]
#[kani::stub(RpJive64_256::apply_permutation, perm_stub8)]
#[kani::stub(F::new, new_stub)]
fn c11_rpjive_merge_with_int_injective() {
    use crypto::hashers::RpJive64_256 as H;
    let mut e = [F::ZERO; 4];
    let mut i = 0; while i < 4 { let v: u64 = kani::any(); kani::assume(v < M64); e[i] = F::from_mont(v); i += 1; }
    let seed = <H as Hasher>::Digest::new(e);
    let x: u64 = kani::any();
    let y: u64 = kani::any();
    reset();
    let dx = H::merge_with_int(seed, x);
    let (lx, nx) = snapshot();
    reset();
    let dy = H::merge_with_int(seed, y);
    let (ly, ny) = snapshot();
    assert!(nx == ny);
    let mut same = true;
    let mut r = 0;
    while r < ROWS { let mut k = 0; while k < 12 { if lx[r][k] != ly[r][k] { same = false; } k += 1; } r += 1; }
    if nx == 0 { same = dx == dy; }   // native replay (no stubs): compare the real digests
    if same { assert!(x == y); }
    kani::cover!(same);
}

// @ob id=C11 tier=quick req=1 to=600 expect=fail desc="vacuity twin: two different strings reach the comparison of recorded states"
#[kani::proof]
#[kani::unwind(14)]
#[kani::stub(alloc::fmt::format, nofmt)]
#[kani::stub(Rp64_256::apply_permutation, perm_stub)]
#[kani::stub(F::new, new_stub)]
fn c11_vacuity_twin() {
    let a: [u8; 3] = kani::any();
    reset();
    let _ = Rp64_256::hash(&a);
    let (l, n) = snapshot();
    if n == 1 && l[0][4] != 0 { assert!(false); }
}



// ---- hash_elements depends only on the residues, not on base versus extension typing: the same base elements typed as quadratic
// or cubic extension elements present exactly the same sponge states (lengths / capacity element included)
macro_rules! typing {
    ($name:ident, $H:ty, $perm:path, $stub:path) => {
        #[kani::proof]
        #[kani::unwind(16)]
        #[kani::stub(alloc::fmt::format, nofmt)]
        #[kani::stub($perm, $stub)]
        #[kani::stub(F::new, new_stub)]
        fn $name() {
            use math::fields::{CubeExtension, QuadExtension};
            let mut e = [F::ZERO; 6];
            let mut i = 0; while i < 6 { let v: u64 = kani::any(); kani::assume(v < M64); e[i] = F::from_mont(v); i += 1; }
            reset();
            let d0 = <$H>::hash_elements(&e);
            let (l0, n0) = snapshot();
            let q = [QuadExtension::<F>::new(e[0], e[1]), QuadExtension::<F>::new(e[2], e[3]), QuadExtension::<F>::new(e[4], e[5])];
            reset();
            let d2 = <$H>::hash_elements(&q);
            let (l2, n2) = snapshot();
            let c = [CubeExtension::<F>::new(e[0], e[1], e[2]), CubeExtension::<F>::new(e[3], e[4], e[5])];
            reset();
            let d3 = <$H>::hash_elements(&c);
            let (l3, n3) = snapshot();
            assert!(n0 == n2 && n0 == n3);
            let mut r = 0;
            while r < ROWS { let mut k = 0; while k < 12 { assert!(l0[r][k] == l2[r][k]); assert!(l0[r][k] == l3[r][k]); k += 1; } r += 1; }
            // native replay (stubs not applied): the real digests must agree
            if n0 == 0 { assert!(d0 == d2 && d0 == d3); }
            kani::cover!(n0 >= 1);
        }
    };
}
// @ob id=C11 tier=quick req=1 to=900 name=c11_rp64_hash_elements_typing funcs="Rp64_256::hash_elements" bounds="6 base elements = 3 quadratic = 2 cubic elements" sym="all elements" desc="hash_elements presents the same sponge states for the same residues typed as base, quadratic or cubic elements"
typing!(c11_rp64_hash_elements_typing, Rp64_256, Rp64_256::apply_permutation, perm_stub);
// @ob id=C11 tier=quick req=1 to=900 name=c11_rpjive_hash_elements_typing funcs="RpJive64_256::hash_elements" bounds="6 base elements = 3 quadratic = 2 cubic elements" sym="all elements" desc="hash_elements presents the same sponge states for the same residues typed as base, quadratic or cubic elements"
typing!(c11_rpjive_hash_elements_typing, RpJive64_256, RpJive64_256::apply_permutation, perm_stub8);

// ---- Rp62_248::merge_with_int: injective in the integer over all 2^64 values (quotient value / M ranges over 0..=4 for the 62-bit field)
const M62: u64 = 4611624995532046337;
use math::fields::f62::BaseElement as F62;
/// identity embedding of v mod M (see `new_stub`); f62::BaseElement is a single-u64 tuple struct
fn new62_stub(v: u64) -> F62 {
    let mut r = v;
    let mut i = 0;
    while i < 4 { if r >= M62 { r -= M62; } i += 1; }
    unsafe { core::mem::transmute::<u64, F62>(r) }
}
fn perm62_rec_stub(state: &mut [F62; 12]) {
    unsafe {
        let p = core::ptr::addr_of_mut!(LOG);
        let n = NLOG;
        if n < ROWS { let mut i = 0; while i < 12 { (*p)[n][i] = core::mem::transmute::<F62, u64>(state[i]); i += 1; } }
        NLOG = n + 1;
    }
}
// @ob id=C11 also=C19 tier=quick req=1 to=900 funcs="Rp62_248::merge_with_int" bounds="one seed digest, two 64-bit integers (quotients by the 62-bit modulus 0..=4)" sym="seed elements, both integers (full 64 bits)" desc="merge_with_int is injective in the integer: different integers present different sponge states"
#[kani::proof]
#[kani::unwind(14)]
#[kani::stub(alloc::fmt::format, nofmt)]
#[kani::stub(winter_crypto::hash::rescue::rp62_248::apply_permutation, perm62_rec_stub)]
#[kani::stub(F62::new, new62_stub)]
fn c11_rp62_merge_with_int_injective() {
    use crypto::hashers::Rp62_248 as H;
    assert!(M62 == <F62 as math::StarkField>::MODULUS);
    let mut e = [F62::ZERO; 4];
    let mut i = 0; while i < 4 { let v: u64 = kani::any(); kani::assume(v < M62); e[i] = unsafe { core::mem::transmute::<u64, F62>(v) }; i += 1; }
    let seed = <H as Hasher>::Digest::new(e);
    let x: u64 = kani::any();
    let y: u64 = kani::any();
    reset();
    let dx = H::merge_with_int(seed, x);
    let (lx, nx) = snapshot();
    reset();
    let dy = H::merge_with_int(seed, y);
    let (ly, ny) = snapshot();
    assert!((nx == 1 && ny == 1) || (nx == 0 && ny == 0));
    let mut same = true;
    let mut k = 0; while k < 12 { if lx[0][k] != ly[0][k] { same = false; } k += 1; }
    if nx == 0 { same = dx == dy; }   // native replay (no stubs): compare the real digests
    if same { assert!(x == y); }
    kani::cover!(same);
    kani::cover!(x >= 3 * M62 && y < M62);
}

// ---- Rp62_248 (62-bit field): totality of byte hashing (permutation stubbed by a counter; f62 `new` real)
static mut N62: usize = 0;
fn perm62_stub(state: &mut [math::fields::f62::BaseElement; 12]) {
    unsafe { N62 += 1; }
    let s0 = state[0];
    let mut i = 0; while i < 11 { state[i] = state[i + 1]; i += 1; }
    state[11] = s0;
}
// @ob id=C11 tier=quick req=1 to=1500 funcs="Rp62_248::hash" bounds="byte strings of every length 0..=64 (2 rate blocks); permutation stubbed" sym="length and all bytes" desc="hashing terminates without panic for every length and applies one permutation per started rate block"
#[kani::proof]
#[kani::unwind(70)]
#[kani::stub(alloc::fmt::format, nofmt)]
#[kani::stub(winter_crypto::hash::rescue::rp62_248::apply_permutation, perm62_stub)]
fn c11_rp62_hash_total_64() {
    let a: [u8; 64] = kani::any();
    let la: usize = kani::any();
    kani::assume(la <= 64);
    unsafe { N62 = 0; }
    let _ = Rp62_248::hash(&a[..la]);
    let n = unsafe { N62 };
    let chunks = (la + 6) / 7;
    assert!(n == (chunks + 7) / 8);
    kani::cover!(la == 64);
}
