//! C09 (hand-written part): the column-batched, segmented LDE of the prover (`RowMatrix::evaluate_polys[_over]`, `Segment`,
//! `ColMatrix::get_base_element`) against direct Horner evaluation at offset * w^i, instantiated at the toy field F_257 and its
//! quadratic / cubic extensions (the code that runs is /repo's; only the type parameter is the harness library's).
use math::fields::{CubeExtension, QuadExtension};
use math::{fft, FieldElement, StarkField};
use prover::matrix::{ColMatrix, RowMatrix};
use prover::StarkDomain;

use crate::toy::{P, T};
use crate::util::nofmt;

type Q = QuadExtension<T>;
type C3 = CubeExtension<T>;
fn el() -> T { let v: u16 = kani::any(); kani::assume((v as u32) < P); T(v) }
fn horner<E: FieldElement<BaseField = T>>(p: &[E], x: T) -> E {
    let mut r = E::ZERO;
    let mut i = p.len();
    while i > 0 { i -= 1; r = r * E::from(x) + p[i]; }
    r
}

macro_rules! c09_lde_base {
    ($name:ident, $n:expr, $blowup:expr, $batch:expr, $offset:expr, $over:expr, $c:expr, $j:expr, $unwind:expr) => {
        #[kani::proof]
        #[kani::unwind($unwind)]
        #[kani::stub(alloc::fmt::format, nofmt)]
        fn $name() {
            // three columns (so that with batch size 2 the last segment is padded); one symbolic coefficient at a symbolic place
            let mut cols: [[T; $n]; 3] = [[T(0); $n]; 3];
            let mut k = 0;
            while k < 3 * $n { cols[k / $n][k % $n] = T(((k * 37 + 11) % 257) as u16); k += 1; }
            cols[$c][$j] = el();
            let polys = ColMatrix::new(vec![cols[0].to_vec(), cols[1].to_vec(), cols[2].to_vec()]);
            let offset = T($offset);
            let m: RowMatrix<T> = if $over {
                let domain = StarkDomain::from_twiddles(fft::get_twiddles::<T>($n), $blowup, offset);
                assert!(domain.offset() == offset && domain.trace_to_lde_blowup() == $blowup && domain.trace_length() == $n);
                RowMatrix::evaluate_polys_over::<$batch>(&polys, &domain)
            } else {
                RowMatrix::evaluate_polys::<$batch>(&polys, $blowup)
            };
            assert!(m.num_rows() == $n * $blowup && m.num_cols() == 3);
            let g = T::get_root_of_unity((($n * $blowup) as usize).ilog2());
            let mut x = offset;
            let mut i = 0;
            while i < $n * $blowup {
                let row = m.row(i);
                assert!(row.len() == 3);
                assert!(row[0] == horner(&cols[0], x));
                assert!(row[1] == horner(&cols[1], x));
                assert!(row[2] == horner(&cols[2], x));
                x = x * g;
                i += 1;
            }
            kani::cover!(true);
            core::mem::forget((polys, m));
        }
    };
}

// @ob id=C09 tier=quick req=1 fs=1 to=1200 name=c09_lde_over_n4_b2_batch2 funcs="RowMatrix::{evaluate_polys_over,from_segments,row},build_segments,get_evaluation_offsets,Segment::new,StarkDomain::from_twiddles" bounds="3 base-field columns of 4 coefficients, blowup 2, batch size 2 (last segment padded), domain offset 5 (not the field generator)" sym="coefficient 3 of column 2 (all 257 values)" enum="size, blowup, batch size, offset, position, constants"
c09_lde_base!(c09_lde_over_n4_b2_batch2, 4, 2, 2, 5, true, 2, 3, 16);
// @ob id=C09 tier=quick req=1 fs=1 to=1200 name=c09_lde_over_n4_b4_batch1 funcs="RowMatrix::{evaluate_polys_over,from_segments,row},build_segments,get_evaluation_offsets,Segment::new,StarkDomain::from_twiddles" bounds="3 base-field columns of 4 coefficients, blowup 4, batch size 1, domain offset 9" sym="coefficient 1 of column 0 (all 257 values)" enum="size, blowup, batch size, offset, position, constants"
c09_lde_base!(c09_lde_over_n4_b4_batch1, 4, 4, 1, 9, true, 0, 1, 20);
// @ob id=C09 tier=quick req=1 fs=1 to=1200 name=c09_lde_gen_n4_b2_batch4 funcs="RowMatrix::{evaluate_polys,from_segments,row},build_segments,get_evaluation_offsets,Segment::new" bounds="3 base-field columns of 4 coefficients, blowup 2, batch size 4, offset = field generator" sym="coefficient 0 of column 1 (all 257 values)" enum="size, blowup, batch size, position, constants"
c09_lde_base!(c09_lde_gen_n4_b2_batch4, 4, 2, 4, 3, false, 1, 0, 16);
// @ob id=C09 tier=thorough req=1 fs=1 to=3000 name=c09_lde_over_n8_b2_batch2 funcs="RowMatrix::{evaluate_polys_over,from_segments,row},build_segments,get_evaluation_offsets,Segment::new" bounds="3 base-field columns of 8 coefficients, blowup 2, batch size 2, domain offset 5" sym="coefficient 5 of column 2 (all 257 values)" enum="size, blowup, batch size, offset, position, constants"
c09_lde_base!(c09_lde_over_n8_b2_batch2, 8, 2, 2, 5, true, 2, 5, 28);

macro_rules! c09_lde_ext {
    ($name:ident, $E:ty, $deg:expr, $n:expr, $blowup:expr, $batch:expr, $offset:expr, $j:expr, $unwind:expr) => {
        #[kani::proof]
        #[kani::unwind($unwind)]
        #[kani::stub(alloc::fmt::format, nofmt)]
        fn $name() {
            // two extension-field columns = 2*deg base columns spread over segments of `batch` base columns
            let mut base: [T; 2 * $n * $deg] = [T(0); 2 * $n * $deg];
            let mut k = 0;
            while k < 2 * $n * $deg { base[k] = T(((k * 53 + 7) % 257) as u16); k += 1; }
            base[$j] = el();
            let els: &[$E] = <$E>::slice_from_base_elements(&base);
            let col0 = els[..$n].to_vec();
            let col1 = els[$n..].to_vec();
            let polys = ColMatrix::new(vec![col0.clone(), col1.clone()]);
            let offset = T($offset);
            let domain = StarkDomain::from_twiddles(fft::get_twiddles::<T>($n), $blowup, offset);
            let m: RowMatrix<$E> = RowMatrix::evaluate_polys_over::<$batch>(&polys, &domain);
            assert!(m.num_rows() == $n * $blowup && m.num_cols() == 2);
            let g = T::get_root_of_unity((($n * $blowup) as usize).ilog2());
            let mut x = offset;
            let mut i = 0;
            while i < $n * $blowup {
                assert!(m.get(0, i) == horner(&col0, x));
                assert!(m.get(1, i) == horner(&col1, x));
                x = x * g;
                i += 1;
            }
            kani::cover!(true);
            core::mem::forget((polys, m, col0, col1));
        }
    };
}

// @ob id=C09 tier=quick req=1 fs=1 to=1500 name=c09_lde_cubic_n4_b2_batch2 funcs="RowMatrix::{evaluate_polys_over,get},build_segments,Segment::new,ColMatrix::get_base_element" bounds="2 columns over the cubic extension of F_257 (6 base columns), 4 coefficients, blowup 2, batch size 2, offset 5" sym="base coordinate 2 of coefficient 3 of column 1 (all 257 values)" enum="size, blowup, batch size, offset, position, constants"
c09_lde_ext!(c09_lde_cubic_n4_b2_batch2, C3, 3, 4, 2, 2, 5, 23, 28);
// @ob id=C09 tier=quick req=1 fs=1 to=1500 name=c09_lde_cubic_n4_b2_batch4 funcs="RowMatrix::{evaluate_polys_over,get},build_segments,Segment::new,ColMatrix::get_base_element" bounds="2 columns over the cubic extension of F_257 (6 base columns), 4 coefficients, blowup 2, batch size 4, offset 9" sym="base coordinate 1 of coefficient 0 of column 0 (all 257 values)" enum="size, blowup, batch size, offset, position, constants"
c09_lde_ext!(c09_lde_cubic_n4_b2_batch4, C3, 3, 4, 2, 4, 9, 1, 28);
// @ob id=C09 tier=quick req=1 fs=1 to=1500 name=c09_lde_quad_n4_b2_batch4 funcs="RowMatrix::{evaluate_polys_over,get},build_segments,Segment::new,ColMatrix::get_base_element" bounds="2 columns over the quadratic extension of F_257 (4 base columns), 4 coefficients, blowup 2, batch size 4, offset 3" sym="base coordinate 1 of coefficient 2 of column 1 (all 257 values)" enum="size, blowup, batch size, offset, position, constants"
c09_lde_ext!(c09_lde_quad_n4_b2_batch4, Q, 2, 4, 2, 4, 3, 13, 20);

// @ob id=C09 tier=quick req=1 to=600 funcs="ColMatrix::{new,get_base_element,get,num_base_cols}" bounds="2 cubic + 2 quadratic columns of 2 rows" sym="all coordinates, base column index, row index" desc="get_base_element(b, r) is coordinate b mod deg of element (b div deg, r)"
#[kani::proof]
#[kani::unwind(8)]
#[kani::stub(alloc::fmt::format, nofmt)]
fn c09_colmatrix_base_element() {
    let c = ColMatrix::new(vec![vec![C3::new(el(), el(), el()), C3::new(el(), el(), el())], vec![C3::new(el(), el(), el()), C3::new(el(), el(), el())]]);
    assert!(c.num_base_cols() == 6);
    let b: usize = kani::any();
    let r: usize = kani::any();
    kani::assume(b < 6 && r < 2);
    let e = c.get(b / 3, r);
    let want = if b % 3 == 0 { e.base_element(0) } else if b % 3 == 1 { e.base_element(1) } else { e.base_element(2) };
    assert!(c.get_base_element(b, r) == want);
    assert!(C3::slice_as_base_elements(&[e])[b % 3] == want);
    let q = ColMatrix::new(vec![vec![Q::new(el(), el()), Q::new(el(), el())], vec![Q::new(el(), el()), Q::new(el(), el())]]);
    let bq: usize = kani::any();
    kani::assume(bq < 4);
    assert!(q.get_base_element(bq, r) == Q::slice_as_base_elements(&[q.get(bq / 2, r)])[bq % 2]);
    kani::cover!(b == 5 && r == 1);
    core::mem::forget((c, q));
}


// a single Segment built at a base-column offset that is NOT a multiple of the batch size, with fewer than `batch` columns left
// @ob id=C09 tier=quick req=1 fs=1 to=1200 funcs="Segment::{new,new_with_buffer,into_data},get_evaluation_offsets" bounds="5 base-field columns of 4 coefficients, batch size 4, segment starting at base column 3 (2 columns left), blowup 2, offset 5" sym="coefficient 2 of column 4 (all 257 values)" enum="sizes, offset, position, constants" desc="columns 3 and 4 are evaluated at offset * w^i into slots 0 and 1 of every row, the remaining slots stay zero"
#[kani::proof]
#[kani::unwind(24)]
#[kani::stub(alloc::fmt::format, nofmt)]
fn c09_segment_unaligned_partial() {
    use prover::matrix::{get_evaluation_offsets, Segment};
    let mut cols: [[T; 4]; 5] = [[T(0); 4]; 5];
    let mut k = 0;
    while k < 20 { cols[k / 4][k % 4] = T(((k * 41 + 3) % 257) as u16); k += 1; }
    cols[4][2] = el();
    let polys = ColMatrix::new(vec![cols[0].to_vec(), cols[1].to_vec(), cols[2].to_vec(), cols[3].to_vec(), cols[4].to_vec()]);
    let offsets = get_evaluation_offsets::<T>(4, 2, T(5));
    let twiddles = fft::get_twiddles::<T>(4);
    let seg = Segment::<T, 4>::new(&polys, 3, &offsets, &twiddles);
    assert!(seg.num_rows() == 8);
    let data = seg.into_data();
    let g = T::get_root_of_unity(3);
    let mut x = T(5);
    let mut i = 0;
    while i < 8 {
        assert!(data[i][0] == horner(&cols[3], x));
        assert!(data[i][1] == horner(&cols[4], x));
        assert!(data[i][2] == T(0) && data[i][3] == T(0));
        x = x * g;
        i += 1;
    }
    kani::cover!(true);
    core::mem::forget((polys, data));
}

// @ob id=C09 tier=quick req=1 fs=1 to=900 expect=fail desc="vacuity twin: the LDE rows are reached and compared"
#[kani::proof]
#[kani::unwind(12)]
#[kani::stub(alloc::fmt::format, nofmt)]
fn c09_lde_vacuity_twin() {
    let c0 = vec![T(1), el(), T(3), T(4)];
    let polys = ColMatrix::new(vec![c0.clone()]);
    let domain = StarkDomain::from_twiddles(fft::get_twiddles::<T>(4), 2, T(5));
    let m: RowMatrix<T> = RowMatrix::evaluate_polys_over::<1>(&polys, &domain);
    if m.row(3)[0] == horner(&c0, T(5) * T::get_root_of_unity(3).exp(3u64)) { assert!(false); }
}
