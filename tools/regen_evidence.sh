#!/bin/bash
# development helper: regenerate every registered evidence file by running each quick check once, sequentially, against /repo
cd "$(dirname "$(readlink -f "$0")")/.."
for p in C07 C08 C19 C18 C12 C11 C20 C16 C04 C06 C09 C10 C13 C15 C03 C05; do
  t0=$(date +%s)
  ./check $p --tier quick > .build/ev_$p.log 2>&1
  rc=$?
  echo "$p rc=$rc wall=$(( $(date +%s) - t0 ))s $(grep -E '^SUMMARY' .build/ev_$p.log | tail -1)"
done
