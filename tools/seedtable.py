#!/usr/bin/env python3
"""Regenerates the table of seeded changes (DESIGN.md section 9) from seeded/*/meta.json.
usage: tools/seedtable.py  -> prints markdown"""
import json, os, re
V = os.path.dirname(os.path.dirname(os.path.abspath(__file__)))
rows = []
for s in sorted(os.listdir(os.path.join(V, "seeded"))):
    mp = os.path.join(V, "seeded", s, "meta.json")
    if not os.path.exists(mp):
        continue
    m = json.load(open(mp))
    runs = m.get("checks_run", [])
    det = [r for r in runs if r.get("detected")]
    if det:
        r = det[-1]
        hs = sorted({re.sub(r".* in ", "", f).split("::")[-1] for f in r.get("failing_checks", [])} |
                    {os.path.basename(v.split("replay=")[-1]).rsplit(".", 1)[0] for v in r.get("violation_lines", [])})
        verdict = "caught: `" + r["check"].replace("./check ", "") + "` — " + ", ".join(hs[:3])
    elif runs:
        r = runs[-1]
        verdict = "**missed** by `" + r["check"].replace("./check ", "") + "`" + (f" ({r.get('inconclusive')} inconclusive)" if r.get("inconclusive") else "")
    else:
        verdict = "not evaluated"
    note = m.get("note", "")
    rows.append(f"| {s} | {m.get('property')} | {m.get('needs', '')} | {verdict}{(' — ' + note) if note else ''} |")
table = "| id | property | needs | result |\n|---|---|---|---|\n" + "\n".join(rows)
import sys
if "--update-design" in sys.argv:
    dp = os.path.join(V, "DESIGN.md")
    d = open(dp).read()
    a, b = d.index("<!-- seedtable:begin -->"), d.index("<!-- seedtable:end -->")
    d = d[:a] + "<!-- seedtable:begin -->\n" + table + "\n" + d[b:]
    open(dp, "w").write(d)
else:
    print(table)
