#!/usr/bin/env python3
"""Seeded-change evaluation helper (development tool, not a registered check).

  seedeval.py confirm <src_dir> <letter> <crate_dir> [--name NAME]
      confirm a sub-agent's change in a fresh scratch worktree of /repo: demo passes without the change, fails with it, and
      the full existing suite passes with it.  src_dir holds patch<letter>.diff and demo<letter>.rs; the demo is dropped
      into <crate_dir>/tests/.  On success the change is stored as /verif/seeded/<NAME>/ (patch.diff, demo.rs, meta.json).
  seedeval.py run <NAME> <prop> [<prop>...] [--tier quick|thorough] [--only substr]
      run the registered checks against a scratch worktree with the change applied (VERIF_REPO=<worktree>; all build output
      and evidence of such runs goes to /verif/.build/alt-*/, never to /verif/evidence) and record detected / missed.
"""
import argparse, json, os, re, shutil, subprocess, sys, time

VERIF = os.path.dirname(os.path.dirname(os.path.abspath(__file__)))
SEEDED = os.path.join(VERIF, "seeded")
SCRATCH = "/tmp/mut"


def sh(cmd, cwd=None, env=None, timeout=None):
    e = dict(os.environ, CARGO_NET_OFFLINE="true")
    if env:
        e.update(env)
    p = subprocess.run(cmd, cwd=cwd, env=e, shell=isinstance(cmd, str), capture_output=True, text=True, timeout=timeout)
    return p.returncode, p.stdout + p.stderr


def worktree(name, patch=None):
    d = os.path.join(SCRATCH, name)
    if os.path.isdir(d):
        sh(["git", "-C", "/repo", "worktree", "remove", "--force", d])
        shutil.rmtree(d, ignore_errors=True)
    os.makedirs(SCRATCH, exist_ok=True)
    rc, out = sh(["git", "-C", "/repo", "worktree", "add", "--detach", d, "HEAD"])
    assert rc == 0, out
    if os.path.exists("/repo/Cargo.lock") and not os.path.exists(os.path.join(d, "Cargo.lock")):
        shutil.copy("/repo/Cargo.lock", os.path.join(d, "Cargo.lock"))   # untracked in the repository; pins the offline dependency set
    if patch:
        rc, out = sh(["git", "apply", patch], cwd=d)
        if rc != 0:   # /repo has moved on (fix: commits) since the change was written: fall back to a 3-way merge
            rc, out = sh(["git", "apply", "-3", patch], cwd=d)
        assert rc == 0, "patch does not apply: " + out
    return d


def drop(name):
    d = os.path.join(SCRATCH, name)
    sh(["git", "-C", "/repo", "worktree", "remove", "--force", d])
    shutil.rmtree(d, ignore_errors=True)
    sh(["git", "-C", "/repo", "worktree", "prune"])


def summarize_tests(out):
    ok = sum(int(m.group(1)) for m in re.finditer(r"test result: \w+\. (\d+) passed", out))
    failed = sum(int(m.group(1)) for m in re.finditer(r"test result: \w+\. \d+ passed; (\d+) failed", out))
    return ok, failed


def confirm(a):
    name = a.name or (os.path.basename(a.src.rstrip("/")) + a.letter)
    patch = os.path.join(a.src, f"patch{a.letter}.diff")
    demo = os.path.join(a.src, f"demo{a.letter}.rs")
    d = worktree("confirm-" + name)
    res = {"name": name, "patch": patch}
    try:
        tdir = os.path.join(d, a.crate, "tests")
        os.makedirs(tdir, exist_ok=True)
        shutil.copy(demo, os.path.join(tdir, "seed_demo.rs"))
        pkg = a.pkg
        cmd = f"cargo test {'-p ' + pkg if pkg else ''} --test seed_demo --offline -j 8"
        rc0, out0 = sh(cmd, cwd=os.path.join(d, a.crate) if not pkg else d, timeout=3600)
        res["demo_without_change"] = {"rc": rc0, "tests": summarize_tests(out0)}
        rc, out = sh(["git", "apply", patch], cwd=d)
        assert rc == 0, out
        rc1, out1 = sh(cmd, cwd=os.path.join(d, a.crate) if not pkg else d, timeout=3600)
        res["demo_with_change"] = {"rc": rc1, "tests": summarize_tests(out1), "tail": out1[-1500:]}
        os.remove(os.path.join(tdir, "seed_demo.rs"))
        if not os.listdir(tdir):
            os.rmdir(tdir)
        rc2, out2 = sh("cargo test --workspace --no-fail-fast --offline -j 8", cwd=d, timeout=7200)
        res["suite_with_change"] = {"rc": rc2, "tests": summarize_tests(out2)}
        good = rc0 == 0 and rc1 != 0 and rc2 == 0 and res["demo_with_change"]["tests"][1] > 0
        res["confirmed"] = good
        print(json.dumps(res, indent=1))
        if good:
            sd = os.path.join(SEEDED, name)
            os.makedirs(sd, exist_ok=True)
            shutil.copy(patch, os.path.join(sd, "patch.diff"))
            shutil.copy(demo, os.path.join(sd, "demo.rs"))
            meta = {"id": name, "property": a.prop or name[:3], "needs": a.needs or "",
                    "demo": {"file": "demo.rs", "goes_to": f"{a.crate}/tests/seed_demo.rs", "cmd": cmd},
                    "confirmed": {"demo_without_change": "passes " + str(res["demo_without_change"]["tests"]),
                                  "demo_with_change": "fails " + str(res["demo_with_change"]["tests"]),
                                  "existing_suite_with_change": "passes " + str(res["suite_with_change"]["tests"]),
                                  "how": "tools/seedeval.py confirm (fresh scratch worktree of /repo HEAD, removed afterwards)"},
                    "checks_run": []}
            mp = os.path.join(sd, "meta.json")
            if os.path.exists(mp):
                old = json.load(open(mp))
                meta["checks_run"] = old.get("checks_run", [])
                meta["needs"] = meta["needs"] or old.get("needs", "")
            json.dump(meta, open(mp, "w"), indent=1)
        return 0 if good else 1
    finally:
        drop("confirm-" + name)


def run(a):
    sd = os.path.join(SEEDED, a.name)
    patch = os.path.join(sd, "patch.diff")
    d = worktree("run-" + a.name, patch)
    mp = os.path.join(sd, "meta.json")
    meta = json.load(open(mp))
    try:
        for prop in a.props:
            t0 = time.time()
            cmd = [os.path.join(VERIF, "check"), prop, "--tier", a.tier] + (["--only", a.only] if a.only else [])
            rc, out = sh(cmd, cwd=VERIF, env={"VERIF_REPO": d}, timeout=6 * 3600)
            viol = [l for l in out.splitlines() if l.startswith("VIOLATION")]
            inc = [l for l in out.splitlines() if l.startswith("INCONCLUSIVE")]
            fails = [l.strip() for l in out.splitlines() if "failing check:" in l][:6]
            summ = [l for l in out.splitlines() if l.startswith("SUMMARY")]
            rec = {"check": " ".join(cmd[0:1] and ["./check", prop, "--tier", a.tier] + (["--only", a.only] if a.only else [])), "exit": rc,
                   "detected": rc == 1 and bool(viol), "violation_lines": viol[:5], "failing_checks": fails,
                   "inconclusive": len(inc), "summary": summ[-1] if summ else "", "wall_s": round(time.time() - t0)}
            meta["checks_run"] = [r for r in meta.get("checks_run", []) if r.get("check") != rec["check"]] + [rec]
            print(json.dumps(rec, indent=1))
            with open(os.path.join(VERIF, ".build", f"seedrun_{a.name}_{prop}.log"), "w") as f:
                f.write(out)
        json.dump(meta, open(mp, "w"), indent=1)
    finally:
        # remove the alt build output of this tree as well (disk)
        import hashlib
        alt = os.path.join(VERIF, ".build", "alt-" + hashlib.sha1(d.encode()).hexdigest()[:8])
        if not a.keep:
            shutil.rmtree(alt, ignore_errors=True)
        drop("run-" + a.name)
    return 0


if __name__ == "__main__":
    ap = argparse.ArgumentParser()
    sub = ap.add_subparsers(dest="cmd")
    c = sub.add_parser("confirm")
    c.add_argument("src"); c.add_argument("letter"); c.add_argument("crate")
    c.add_argument("--name"); c.add_argument("--pkg", default=None); c.add_argument("--prop"); c.add_argument("--needs")
    r = sub.add_parser("run")
    r.add_argument("name"); r.add_argument("props", nargs="+"); r.add_argument("--tier", default="quick"); r.add_argument("--only")
    r.add_argument("--keep", action="store_true")
    a = ap.parse_args()
    sys.exit(confirm(a) if a.cmd == "confirm" else run(a))
