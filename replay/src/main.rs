//! wf-replay: native execution of the real winterfell code for Engine M (vf/mirsmt).
//!
//! Two uses: (a) counterexample replay: a solver model, lifted to operands of a public operation, is re-executed
//! here before it is reported; (b) translator validation: the same inputs are pushed through this binary and
//! through the MIR->SMT encoding, any disagreement aborts the obligation.
//!
//! Protocol: one request per stdin line, whitespace separated, all numbers decimal:
//!     <field> <op> <args...>        field in f64 | f62 | f128 | mds12 | mds8
//! one answer line per request:
//!     ok <numbers...>   |   panic <message>   |   err <message>
//! Field elements travel as their INTERNAL representation (f64: Montgomery value, injected with the public
//! `BaseElement::from_mont`; f62/f128: injected with the public unsafe `FieldElement::bytes_as_elements`, read back
//! with `AsBytes::as_bytes`).  The MDS kernels are `pub(crate)` in winter-crypto: their *source files* are compiled
//! into this crate with `#[path]`, so the code that runs is the repository's current source text.

use std::io::{self, BufRead, Write};
use std::panic;

use math::{fields::f128, fields::f62, fields::f64 as g64, fields::CubeExtension, fields::QuadExtension, ExtensibleField, ExtensionOf, FieldElement, StarkField};
use utils::{AsBytes, Randomizable};

#[path = "/repo/crypto/src/hash/mds/mds_f64_12x12.rs"]
mod mds12;
#[path = "/repo/crypto/src/hash/mds/mds_f64_8x8.rs"]
mod mds8;

#[repr(align(16))]
struct Aligned([u8; 16]);

trait Raw: StarkField + ExtensibleField<2> + ExtensibleField<3> + Randomizable {
    fn from_inner(x: u128) -> Self;
    fn inner_u(&self) -> u128;
    fn int_u(&self) -> u128;
    fn new_u(x: u128) -> Self;
}

impl Raw for g64::BaseElement {
    fn from_inner(x: u128) -> Self {
        g64::BaseElement::from_mont(x as u64)
    }
    fn inner_u(&self) -> u128 {
        self.inner() as u128
    }
    fn int_u(&self) -> u128 {
        StarkField::as_int(self) as u128
    }
    fn new_u(x: u128) -> Self {
        g64::BaseElement::new(x as u64)
    }
}

impl Raw for f62::BaseElement {
    fn from_inner(x: u128) -> Self {
        let mut b = Aligned([0u8; 16]);
        b.0[..8].copy_from_slice(&(x as u64).to_le_bytes());
        let e = unsafe { <f62::BaseElement as FieldElement>::bytes_as_elements(&b.0[..8]) }.expect("aligned");
        e[0]
    }
    fn inner_u(&self) -> u128 {
        let b = self.as_bytes();
        let mut a = [0u8; 8];
        a.copy_from_slice(&b[..8]);
        u64::from_le_bytes(a) as u128
    }
    fn int_u(&self) -> u128 {
        StarkField::as_int(self) as u128
    }
    fn new_u(x: u128) -> Self {
        f62::BaseElement::new(x as u64)
    }
}

impl Raw for f128::BaseElement {
    fn from_inner(x: u128) -> Self {
        let mut b = Aligned([0u8; 16]);
        b.0.copy_from_slice(&x.to_le_bytes());
        let e = unsafe { <f128::BaseElement as FieldElement>::bytes_as_elements(&b.0[..]) }.expect("aligned");
        e[0]
    }
    fn inner_u(&self) -> u128 {
        let b = self.as_bytes();
        let mut a = [0u8; 16];
        a.copy_from_slice(&b[..16]);
        u128::from_le_bytes(a)
    }
    fn int_u(&self) -> u128 {
        StarkField::as_int(self)
    }
    fn new_u(x: u128) -> Self {
        f128::BaseElement::new(x)
    }
}

fn nums(a: &[&str]) -> Result<Vec<u128>, String> {
    a.iter().map(|s| s.parse::<u128>().map_err(|e| format!("bad number {s}: {e}"))).collect()
}

fn fmt(v: &[u128]) -> String {
    v.iter().map(|x| x.to_string()).collect::<Vec<_>>().join(" ")
}

fn need(n: &[u128], k: usize) -> Result<(), String> {
    if n.len() != k {
        Err(format!("expected {k} arguments, got {}", n.len()))
    } else {
        Ok(())
    }
}

fn generic<E: Raw>(op: &str, n: &[u128]) -> Option<Result<String, String>> {
    let e = |i: usize| E::from_inner(n[i]);
    let r = match op {
        "new" => need(n, 1).map(|_| fmt(&[E::new_u(n[0]).inner_u()])),
        "as_int" => need(n, 1).map(|_| fmt(&[e(0).int_u()])),
        "add" => need(n, 2).map(|_| fmt(&[(e(0) + e(1)).inner_u()])),
        "sub" => need(n, 2).map(|_| fmt(&[(e(0) - e(1)).inner_u()])),
        "mul" => need(n, 2).map(|_| fmt(&[(e(0) * e(1)).inner_u()])),
        "div" => need(n, 2).map(|_| fmt(&[(e(0) / e(1)).inner_u()])),
        "neg" => need(n, 1).map(|_| fmt(&[(-e(0)).inner_u()])),
        "double" => need(n, 1).map(|_| fmt(&[e(0).double().inner_u()])),
        "square" => need(n, 1).map(|_| fmt(&[e(0).square().inner_u()])),
        "inv" => need(n, 1).map(|_| fmt(&[e(0).inv().inner_u()])),
        "eq" => need(n, 2).map(|_| fmt(&[(e(0) == e(1)) as u128])),
        "exp" => need(n, 2).map(|_| {
            // exponent restricted to u64 (PositiveInteger differs per field)
            let p: E::PositiveInteger = (n[1] as u64).into();
            fmt(&[e(0).exp(p).inner_u()])
        }),
        "ext2_mul" => need(n, 4).map(|_| {
            let r = <E as ExtensibleField<2>>::mul([e(0), e(1)], [e(2), e(3)]);
            fmt(&[r[0].inner_u(), r[1].inner_u()])
        }),
        "ext2_square" => need(n, 2).map(|_| {
            let r = <E as ExtensibleField<2>>::square([e(0), e(1)]);
            fmt(&[r[0].inner_u(), r[1].inner_u()])
        }),
        "ext2_mul_base" => need(n, 3).map(|_| {
            let r = <E as ExtensibleField<2>>::mul_base([e(0), e(1)], e(2));
            fmt(&[r[0].inner_u(), r[1].inner_u()])
        }),
        "ext2_frobenius" => need(n, 2).map(|_| {
            let r = <E as ExtensibleField<2>>::frobenius([e(0), e(1)]);
            fmt(&[r[0].inner_u(), r[1].inner_u()])
        }),
        "ext3_mul" => need(n, 6).map(|_| {
            let r = <E as ExtensibleField<3>>::mul([e(0), e(1), e(2)], [e(3), e(4), e(5)]);
            fmt(&[r[0].inner_u(), r[1].inner_u(), r[2].inner_u()])
        }),
        "ext3_square" => need(n, 3).map(|_| {
            let r = <E as ExtensibleField<3>>::square([e(0), e(1), e(2)]);
            fmt(&[r[0].inner_u(), r[1].inner_u(), r[2].inner_u()])
        }),
        "ext3_mul_base" => need(n, 4).map(|_| {
            let r = <E as ExtensibleField<3>>::mul_base([e(0), e(1), e(2)], e(3));
            fmt(&[r[0].inner_u(), r[1].inner_u(), r[2].inner_u()])
        }),
        "ext3_frobenius" => need(n, 3).map(|_| {
            let r = <E as ExtensibleField<3>>::frobenius([e(0), e(1), e(2)]);
            fmt(&[r[0].inner_u(), r[1].inner_u(), r[2].inner_u()])
        }),
        // public generic wrappers QuadExtension<E> / CubeExtension<E>
        "quad_add" | "quad_sub" | "quad_mul" => need(n, 4).map(|_| {
            let (x, y) = (QuadExtension::<E>::new(e(0), e(1)), QuadExtension::<E>::new(e(2), e(3)));
            let r = match op {
                "quad_add" => x + y,
                "quad_sub" => x - y,
                _ => x * y,
            }
            .to_base_elements();
            fmt(&[r[0].inner_u(), r[1].inner_u()])
        }),
        "quad_neg" | "quad_double" | "quad_square" | "quad_conjugate" => need(n, 2).map(|_| {
            let x = QuadExtension::<E>::new(e(0), e(1));
            let r = match op {
                "quad_neg" => -x,
                "quad_double" => x.double(),
                "quad_square" => x.square(),
                _ => x.conjugate(),
            }
            .to_base_elements();
            fmt(&[r[0].inner_u(), r[1].inner_u()])
        }),
        "quad_mul_base" => need(n, 3).map(|_| {
            let r = QuadExtension::<E>::new(e(0), e(1)).mul_base(e(2)).to_base_elements();
            fmt(&[r[0].inner_u(), r[1].inner_u()])
        }),
        "quad_from_base" => need(n, 1).map(|_| {
            let r = QuadExtension::<E>::from(e(0)).to_base_elements();
            fmt(&[r[0].inner_u(), r[1].inner_u()])
        }),
        "cube_add" | "cube_sub" | "cube_mul" => need(n, 6).map(|_| {
            let (x, y) = (CubeExtension::<E>::new(e(0), e(1), e(2)), CubeExtension::<E>::new(e(3), e(4), e(5)));
            let r = match op {
                "cube_add" => x + y,
                "cube_sub" => x - y,
                _ => x * y,
            }
            .to_base_elements();
            fmt(&[r[0].inner_u(), r[1].inner_u(), r[2].inner_u()])
        }),
        "cube_neg" | "cube_double" | "cube_square" | "cube_conjugate" => need(n, 3).map(|_| {
            let x = CubeExtension::<E>::new(e(0), e(1), e(2));
            let r = match op {
                "cube_neg" => -x,
                "cube_double" => x.double(),
                "cube_square" => x.square(),
                _ => x.conjugate(),
            }
            .to_base_elements();
            fmt(&[r[0].inner_u(), r[1].inner_u(), r[2].inner_u()])
        }),
        "cube_mul_base" => need(n, 4).map(|_| {
            let r = CubeExtension::<E>::new(e(0), e(1), e(2)).mul_base(e(3)).to_base_elements();
            fmt(&[r[0].inner_u(), r[1].inner_u(), r[2].inner_u()])
        }),
        "cube_from_base" => need(n, 1).map(|_| {
            let r = CubeExtension::<E>::from(e(0)).to_base_elements();
            fmt(&[r[0].inner_u(), r[1].inner_u(), r[2].inner_u()])
        }),
        "from_random_bytes" => {
            // args: byte values (any count)
            let b: Vec<u8> = n.iter().map(|x| *x as u8).collect();
            Ok(match E::from_random_bytes(&b) {
                Some(v) => format!("1 {}", v.inner_u()),
                None => "0 0".to_string(),
            })
        },
        "const" => {
            // modulus bits two_adicity generator(inner) root(inner) zero(inner) one(inner)
            Ok(fmt(&[
                E::MODULUS_BITS as u128,
                E::TWO_ADICITY as u128,
                E::GENERATOR.inner_u(),
                E::TWO_ADIC_ROOT_OF_UNITY.inner_u(),
                E::ZERO.inner_u(),
                E::ONE.inner_u(),
            ]))
        },
        _ => return None,
    };
    Some(r)
}

fn opt<T: Raw, S>(r: Result<T, S>) -> String {
    match r {
        Ok(v) => format!("1 {}", v.inner_u()),
        Err(_) => "0 0".to_string(),
    }
}

fn optu<S>(r: Result<u128, S>) -> String {
    match r {
        Ok(v) => format!("1 {}", v),
        Err(_) => "0 0".to_string(),
    }
}

fn f64_ops(op: &str, n: &[u128]) -> Result<String, String> {
    type E = g64::BaseElement;
    let e = |i: usize| E::from_mont(n[i] as u64);
    match op {
        "mul_small" => {
            need(n, 2)?;
            let x = e(0);
            let s = n[1] as u32;
            let r = x.mul_small(s);
            let full = x * E::new(s as u64);
            // result inner, as_int of result, (mul_small == full product) under ==, as_int of full product
            Ok(fmt(&[r.inner() as u128, r.as_int() as u128, (r == full) as u128, full.as_int() as u128, full.inner() as u128]))
        },
        "exp7" => need(n, 1).map(|_| fmt(&[e(0).exp7().inner() as u128])),
        "double" => {
            need(n, 1)?;
            let x = e(0);
            let d = x.double();
            let s = x + x;
            // double inner, (double == x + x) under ==, inner of x + x, as_int of both
            Ok(fmt(&[d.inner() as u128, (d == s) as u128, s.inner() as u128, d.as_int() as u128, s.as_int() as u128]))
        },
        "as_int_inherent" => need(n, 1).map(|_| fmt(&[E::as_int(&e(0)) as u128])),
        "from_bool" => need(n, 1).map(|_| fmt(&[E::from(n[0] != 0).inner() as u128])),
        "from_u8" => need(n, 1).map(|_| fmt(&[E::from(n[0] as u8).inner() as u128])),
        "from_u16" => need(n, 1).map(|_| fmt(&[E::from(n[0] as u16).inner() as u128])),
        "from_u32" => need(n, 1).map(|_| fmt(&[E::from(n[0] as u32).inner() as u128])),
        "try_from_u64" => need(n, 1).map(|_| opt(E::try_from(n[0] as u64))),
        "try_from_u128" => need(n, 1).map(|_| opt(E::try_from(n[0]))),
        "try_from_usize" => need(n, 1).map(|_| opt(E::try_from(n[0] as usize))),
        "try_from_bytes8" => {
            need(n, 8)?;
            let mut b = [0u8; 8];
            for i in 0..8 {
                b[i] = n[i] as u8;
            }
            Ok(opt(E::try_from(b)))
        },
        "try_from_slice" => {
            let b: Vec<u8> = n.iter().map(|x| *x as u8).collect();
            Ok(opt(E::try_from(&b[..])))
        },
        "to_u64" => need(n, 1).map(|_| fmt(&[u64::from(e(0)) as u128])),
        "to_u128" => need(n, 1).map(|_| fmt(&[u128::from(e(0))])),
        "try_to_bool" => need(n, 1).map(|_| optu(bool::try_from(e(0)).map(|v| v as u128))),
        "try_to_u8" => need(n, 1).map(|_| optu(u8::try_from(e(0)).map(|v| v as u128))),
        "try_to_u16" => need(n, 1).map(|_| optu(u16::try_from(e(0)).map(|v| v as u128))),
        "try_to_u32" => need(n, 1).map(|_| optu(u32::try_from(e(0)).map(|v| v as u128))),
        _ => generic::<E>(op, n).unwrap_or_else(|| Err(format!("unknown op {op}"))),
    }
}

fn f62_ops(op: &str, n: &[u128]) -> Result<String, String> {
    type E = f62::BaseElement;
    let e = |i: usize| <E as Raw>::from_inner(n[i]);
    match op {
        "from_u8" => need(n, 1).map(|_| fmt(&[E::from(n[0] as u8).inner_u()])),
        "from_u16" => need(n, 1).map(|_| fmt(&[E::from(n[0] as u16).inner_u()])),
        "from_u32" => need(n, 1).map(|_| fmt(&[E::from(n[0] as u32).inner_u()])),
        "try_from_u64" => need(n, 1).map(|_| opt(E::try_from(n[0] as u64))),
        "try_from_u128" => need(n, 1).map(|_| opt(E::try_from(n[0]))),
        "try_from_bytes8" => {
            need(n, 8)?;
            let mut b = [0u8; 8];
            for i in 0..8 {
                b[i] = n[i] as u8;
            }
            Ok(opt(E::try_from(b)))
        },
        "try_from_slice" => {
            let b: Vec<u8> = n.iter().map(|x| *x as u8).collect();
            Ok(opt(E::try_from(&b[..])))
        },
        "to_u64" => need(n, 1).map(|_| fmt(&[u64::from(e(0)) as u128])),
        "to_u128" => need(n, 1).map(|_| fmt(&[u128::from(e(0))])),
        _ => generic::<E>(op, n).unwrap_or_else(|| Err(format!("unknown op {op}"))),
    }
}

fn f128_ops(op: &str, n: &[u128]) -> Result<String, String> {
    type E = f128::BaseElement;
    match op {
        "from_u8" => need(n, 1).map(|_| fmt(&[E::from(n[0] as u8).inner_u()])),
        "from_u16" => need(n, 1).map(|_| fmt(&[E::from(n[0] as u16).inner_u()])),
        "from_u32" => need(n, 1).map(|_| fmt(&[E::from(n[0] as u32).inner_u()])),
        "from_u64" => need(n, 1).map(|_| fmt(&[E::from(n[0] as u64).inner_u()])),
        "try_from_u128" => need(n, 1).map(|_| opt(E::try_from(n[0]))),
        "try_from_slice" => {
            let b: Vec<u8> = n.iter().map(|x| *x as u8).collect();
            Ok(opt(E::try_from(&b[..])))
        },
        // the cubic extension of f128 is unimplemented!() by design: do not route ext3_* here
        "ext3_mul" | "ext3_square" | "ext3_mul_base" | "ext3_frobenius" => Err("f128 has no cubic extension".into()),
        x if x.starts_with("cube_") => Err("f128 has no cubic extension".into()),
        _ => generic::<E>(op, n).unwrap_or_else(|| Err(format!("unknown op {op}"))),
    }
}

fn mds12_ops(op: &str, n: &[u128]) -> Result<String, String> {
    need(n, 12)?;
    match op {
        "freq" => {
            let mut s = [0u64; 12];
            for i in 0..12 {
                s[i] = n[i] as u64;
            }
            let r = mds12::mds_multiply_freq(s);
            Ok(fmt(&r.iter().map(|x| *x as u128).collect::<Vec<_>>()))
        },
        "mul" => {
            let mut s = [g64::BaseElement::ZERO; 12];
            for i in 0..12 {
                s[i] = g64::BaseElement::from_mont(n[i] as u64);
            }
            mds12::mds_multiply(&mut s);
            Ok(fmt(&s.iter().map(|x| x.inner() as u128).collect::<Vec<_>>()))
        },
        // the same product through the PUBLIC constant Rp64_256::MDS and public field ops (reference)
        "mul_ref" => {
            let mut s = [g64::BaseElement::ZERO; 12];
            for i in 0..12 {
                s[i] = g64::BaseElement::from_mont(n[i] as u64);
            }
            let m = crypto::hashers::Rp64_256::MDS;
            let mut out = vec![];
            for i in 0..12 {
                let mut acc = g64::BaseElement::ZERO;
                for j in 0..12 {
                    acc += m[i][j] * s[j];
                }
                out.push(acc.inner() as u128);
            }
            Ok(fmt(&out))
        },
        // public entry point that reaches mds_multiply: Rp64_256::apply_round(state, round) ; arg 13 would be the round
        _ => Err(format!("unknown op {op}")),
    }
}

fn mds8_ops(op: &str, n: &[u128]) -> Result<String, String> {
    need(n, 8)?;
    match op {
        "freq" => {
            let mut s = [0u64; 8];
            for i in 0..8 {
                s[i] = n[i] as u64;
            }
            let r = mds8::mds_multiply_freq(s);
            Ok(fmt(&r.iter().map(|x| *x as u128).collect::<Vec<_>>()))
        },
        "mul" => {
            let mut s = [g64::BaseElement::ZERO; 8];
            for i in 0..8 {
                s[i] = g64::BaseElement::from_mont(n[i] as u64);
            }
            mds8::mds_multiply(&mut s);
            Ok(fmt(&s.iter().map(|x| x.inner() as u128).collect::<Vec<_>>()))
        },
        "mul_ref" => {
            let mut s = [g64::BaseElement::ZERO; 8];
            for i in 0..8 {
                s[i] = g64::BaseElement::from_mont(n[i] as u64);
            }
            let m = crypto::hashers::RpJive64_256::MDS;
            let mut out = vec![];
            for i in 0..8 {
                let mut acc = g64::BaseElement::ZERO;
                for j in 0..8 {
                    acc += m[i][j] * s[j];
                }
                out.push(acc.inner() as u128);
            }
            Ok(fmt(&out))
        },
        _ => Err(format!("unknown op {op}")),
    }
}

/// public-API reachability of the MDS kernels: one Rescue round through the public `apply_round`
fn rp_ops(which: &str, op: &str, n: &[u128]) -> Result<String, String> {
    match (which, op) {
        ("rp64", "apply_round") => {
            need(n, 13)?;
            let mut s = [g64::BaseElement::ZERO; 12];
            for i in 0..12 {
                s[i] = g64::BaseElement::from_mont(n[i] as u64);
            }
            crypto::hashers::Rp64_256::apply_round(&mut s, n[12] as usize);
            Ok(fmt(&s.iter().map(|x| x.inner() as u128).collect::<Vec<_>>()))
        },
        ("rpjive", "apply_round") => {
            need(n, 9)?;
            let mut s = [g64::BaseElement::ZERO; 8];
            for i in 0..8 {
                s[i] = g64::BaseElement::from_mont(n[i] as u64);
            }
            crypto::hashers::RpJive64_256::apply_round(&mut s, n[8] as usize);
            Ok(fmt(&s.iter().map(|x| x.inner() as u128).collect::<Vec<_>>()))
        },
        // args: the 12 (8) internal values of the state AFTER the S-box of the first half round (= the input of the first
        // mds_multiply) + the round number. The pre-image under x -> x^7 is computed with the public `exp`, then the PUBLIC
        // apply_round is run on it and compared (under ==) with a reference built from public field operations on
        // canonical values and the public constants MDS / ARK1 / ARK2.
        // answer: #positions differing under ==, #positions of the real output with internal value >= M, then the real output
        ("rp64", "round_check") => {
            need(n, 13)?;
            type E = g64::BaseElement;
            const INV7: u64 = 10540996611094048183;
            let round = n[12] as usize;
            let y: Vec<E> = (0..12).map(|i| E::from_mont(n[i] as u64)).collect();
            let mut state = [E::ZERO; 12];
            for i in 0..12 {
                state[i] = y[i].exp(INV7);
            }
            crypto::hashers::Rp64_256::apply_round(&mut state, round);
            let m = crypto::hashers::Rp64_256::MDS;
            let canon = |v: E| E::new(v.as_int());
            let mds = |s: &Vec<E>| -> Vec<E> {
                (0..12).map(|i| { let mut acc = E::ZERO; for j in 0..12 { acc += m[i][j] * s[j]; } acc }).collect()
            };
            let mut r: Vec<E> = y.iter().map(|v| canon(*v)).collect();
            r = mds(&r);
            for i in 0..12 { r[i] += crypto::hashers::Rp64_256::ARK1[round][i]; }
            r = r.iter().map(|v| v.exp(INV7)).collect();
            r = mds(&r);
            for i in 0..12 { r[i] += crypto::hashers::Rp64_256::ARK2[round][i]; }
            let diff = (0..12).filter(|&i| state[i] != r[i]).count() as u128;
            let noncanon = state.iter().filter(|v| v.inner() >= 0xFFFFFFFF00000001).count() as u128;
            let mut out = vec![diff, noncanon];
            out.extend(state.iter().map(|x| x.inner() as u128));
            Ok(fmt(&out))
        },
        ("rpjive", "round_check") => {
            need(n, 9)?;
            type E = g64::BaseElement;
            const INV7: u64 = 10540996611094048183;
            let round = n[8] as usize;
            let y: Vec<E> = (0..8).map(|i| E::from_mont(n[i] as u64)).collect();
            let mut state = [E::ZERO; 8];
            for i in 0..8 {
                state[i] = y[i].exp(INV7);
            }
            crypto::hashers::RpJive64_256::apply_round(&mut state, round);
            let m = crypto::hashers::RpJive64_256::MDS;
            let canon = |v: E| E::new(v.as_int());
            let mds = |s: &Vec<E>| -> Vec<E> {
                (0..8).map(|i| { let mut acc = E::ZERO; for j in 0..8 { acc += m[i][j] * s[j]; } acc }).collect()
            };
            let mut r: Vec<E> = y.iter().map(|v| canon(*v)).collect();
            r = mds(&r);
            for i in 0..8 { r[i] += crypto::hashers::RpJive64_256::ARK1[round][i]; }
            r = r.iter().map(|v| v.exp(INV7)).collect();
            r = mds(&r);
            for i in 0..8 { r[i] += crypto::hashers::RpJive64_256::ARK2[round][i]; }
            let diff = (0..8).filter(|&i| state[i] != r[i]).count() as u128;
            let noncanon = state.iter().filter(|v| v.inner() >= 0xFFFFFFFF00000001).count() as u128;
            let mut out = vec![diff, noncanon];
            out.extend(state.iter().map(|x| x.inner() as u128));
            Ok(fmt(&out))
        },
        _ => Err(format!("unknown op {which} {op}")),
    }
}

fn handle(line: &str) -> Result<String, String> {
    let t: Vec<&str> = line.split_whitespace().collect();
    if t.len() < 2 {
        return Err("short request".into());
    }
    let n = nums(&t[2..])?;
    match t[0] {
        "f64" => f64_ops(t[1], &n),
        "f62" => f62_ops(t[1], &n),
        "f128" => f128_ops(t[1], &n),
        "mds12" => mds12_ops(t[1], &n),
        "mds8" => mds8_ops(t[1], &n),
        "rp64" | "rpjive" => rp_ops(t[0], t[1], &n),
        _ => Err(format!("unknown target {}", t[0])),
    }
}

fn main() {
    panic::set_hook(Box::new(|_| {}));
    let stdin = io::stdin();
    let stdout = io::stdout();
    let mut out = io::BufWriter::new(stdout.lock());
    for line in stdin.lock().lines() {
        let line = match line {
            Ok(l) => l,
            Err(_) => break,
        };
        let l = line.trim().to_string();
        if l.is_empty() || l.starts_with('#') {
            continue;
        }
        let res = panic::catch_unwind(|| handle(&l));
        let ans = match res {
            Ok(Ok(s)) => format!("ok {s}"),
            Ok(Err(e)) => format!("err {e}"),
            Err(p) => {
                let msg = p
                    .downcast_ref::<String>()
                    .cloned()
                    .or_else(|| p.downcast_ref::<&str>().map(|s| s.to_string()))
                    .unwrap_or_else(|| "?".into());
                format!("panic {}", msg.replace('\n', " "))
            },
        };
        let _ = writeln!(out, "{ans}");
        let _ = out.flush();
    }
}
