"""Engine K: discover annotated Kani harnesses, run them in a pool of target dirs, parse verdicts,
extract counterexamples (concrete playback) and replay them natively."""
import fcntl, os, re, resource, shutil, signal, subprocess, threading, time, queue, json
from . import common as C

OB_RE = re.compile(r"^\s*//\s*@ob\s+(.*)$")
FN_RE = re.compile(r"^\s*(?:pub\s+)?fn\s+([A-Za-z0-9_]+)\s*\(")
KV_RE = re.compile(r'(\w+)=("([^"]*)"|\S+)')


class Harness:
    def __init__(self, module, name, kv):
        self.module, self.name = module, name
        self.full = f"{module}::{kv['mod']}::{name}" if kv.get("mod") else f"{module}::{name}"
        self.prop = kv.get("id", "")
        self.tier = kv.get("tier", "quick")
        self.required = kv.get("req", "1") == "1"
        self.timeout = int(kv.get("to", "300"))
        self.expect = kv.get("expect", "pass")  # pass | fail (vacuity twin / known finding witness)
        self.fs = kv.get("fs", "0") == "1"  # --max-field-sensitivity-array-size 1024
        self.mem_gb = int(kv.get("mem", "12"))
        self.desc = kv.get("desc", "")
        self.funcs = kv.get("funcs", "")
        self.bounds = kv.get("bounds", "")
        self.sym = kv.get("sym", "")
        self.enum = kv.get("enum", "")
        self.hang = kv.get("hang", "0") == "1"  # an exceeded unwinding bound is a non-termination candidate (replayed natively)
        self.finding = kv.get("finding", "")  # key into known_findings for expect=fail witnesses
        self.kv = kv


def discover(prop=None):
    """scan kani/src/*.rs for `// @ob k=v ...` lines (may span several consecutive comment lines)
    followed by attributes and `fn name(`."""
    out = []
    src = os.path.join(C.KANI_CRATE, "src")
    for fn in sorted(os.listdir(src)):
        if not fn.endswith(".rs"):
            continue
        module = fn[:-3]
        pend = None
        with open(os.path.join(src, fn)) as f:
            for line in f:
                m = OB_RE.match(line)
                if m:
                    kv = {k: (v3 if v.startswith('"') else v) for k, v, v3 in KV_RE.findall(m.group(1))}
                    if pend is None:
                        pend = kv
                    else:
                        pend.update(kv)
                    if "name" in pend:  # macro-generated harness: name given explicitly
                        h = Harness(module, pend["name"], pend)
                        pend = None
                        if prop is None or h.prop == prop or prop in h.kv.get("also", "").split(","):
                            out.append(h)
                    continue
                if pend is not None:
                    m2 = FN_RE.match(line)
                    if m2:
                        h = Harness(module, m2.group(1), pend)
                        pend = None
                        if prop is None or h.prop == prop or prop in h.kv.get("also", "").split(","):
                            out.append(h)
    return out


# ------------------------------------------------------------------------------------------------
CHECK_RE = re.compile(
    r"Check \d+: (?P<name>[^\n]+)\n\s+- Status: (?P<status>\w+)\n\s+- Description: \"(?P<desc>.*?)\"\n(?:\s+- Location: (?P<loc>.*?)\n)?",
    re.S,
)
LOC_RE = re.compile(r"(?P<file>\S+?):(?P<line>\d+):(?P<col>\d+)(?: in function (?P<func>.*))?$")


class Result:
    def __init__(self):
        self.status = "error"  # success | failed | timeout | oom | unwind | error
        self.failed = []  # list of dicts {name, desc, file, line, func}
        self.covers = {"SATISFIED": 0, "UNSATISFIABLE": 0, "UNREACHABLE": 0}
        self.nchecks = 0
        self.time = 0.0
        self.verif_time = 0.0
        self.log = ""
        self.solver_stats = ""
        self.stub_ok = True


def _limits(mem_gb):
    def f():
        os.setsid()
        lim = mem_gb * (1 << 30)
        resource.setrlimit(resource.RLIMIT_AS, (lim, lim))
    return f


def kani_cmd(h, target_dir, extra=()):
    cmd = ["cargo", "kani", "-Z", "stubbing", "--exact", "--harness", h.full, "--target-dir", target_dir]
    cmd += list(extra)
    if h.fs:
        cmd += ["-Z", "unstable-options", "--cbmc-args", "--max-field-sensitivity-array-size", "1024"]
    return cmd


def kani_env():
    env = dict(os.environ)
    env["RUSTFLAGS"] = f"--cfg {C.GUARD}"
    env["CARGO_NET_OFFLINE"] = "true"
    env.pop("RUSTUP_TOOLCHAIN", None)
    return env


def run_proc(cmd, cwd, timeout, mem_gb, env=None):
    t0 = time.time()
    p = subprocess.Popen(cmd, cwd=cwd, stdout=subprocess.PIPE, stderr=subprocess.STDOUT, env=env or kani_env(),
                         preexec_fn=_limits(mem_gb), text=True, errors="replace")
    try:
        out, _ = p.communicate(timeout=timeout)
        to = False
    except subprocess.TimeoutExpired:
        to = True
        try:
            os.killpg(p.pid, signal.SIGKILL)
        except ProcessLookupError:
            pass
        out, _ = p.communicate()
    return out, p.returncode, to, time.time() - t0


def parse(out, res):
    for m in CHECK_RE.finditer(out):
        st = m.group("status")
        name = m.group("name")
        if ".cover." in name or st in ("SATISFIED", "UNSATISFIABLE"):
            res.covers[st] = res.covers.get(st, 0) + 1
            continue
        res.nchecks += 1
        if st in ("FAILURE", "UNDETERMINED"):
            d = {"name": name, "status": st, "desc": m.group("desc"), "file": "", "line": 0, "func": ""}
            lm = LOC_RE.match((m.group("loc") or "").strip())
            if lm:
                d["file"], d["line"], d["func"] = lm.group("file"), int(lm.group("line")), (lm.group("func") or "").strip()
            res.failed.append(d)
    vm = re.search(r"Verification Time: ([0-9.]+)s", out)
    if vm:
        res.verif_time = float(vm.group(1))
    mem = re.search(r"run out of memory|out of memory|std::bad_alloc|Out of memory|memory exhausted|memory allocation of \d+ bytes failed", out)
    real_fail = [f for f in res.failed if f["status"] == "FAILURE" and "unwinding assertion" not in f["desc"]]
    unwind = [f for f in res.failed if "unwinding assertion" in f["desc"] and f["status"] == "FAILURE"]
    if "VERIFICATION:- SUCCESSFUL" in out:
        res.status = "success"
    elif mem and not real_fail:
        res.status = "oom"
    elif real_fail:
        res.status = "failed"
        res.failed = real_fail + unwind
    elif unwind:
        res.status = "unwind"
        res.failed = unwind
    elif "VERIFICATION:- FAILED" in out:
        # failed without an identifiable failing check (e.g. unsupported construct reached, CBMC crash)
        res.status = "error"
    else:
        res.status = "error"
    return res


class Pool:
    """pool of cargo target dirs under .build/k<i>, each protected by an flock so concurrent check
    processes never share one."""

    def __init__(self, n):
        os.makedirs(C.BUILD, exist_ok=True)
        self.n = n
        self.q = queue.Queue()
        self.locks = []
        i = 0
        got = 0
        while got < n and i < 64:
            lp = os.path.join(C.BUILD, f"k{i}.lock")
            fd = os.open(lp, os.O_CREAT | os.O_RDWR)
            try:
                fcntl.flock(fd, fcntl.LOCK_EX | fcntl.LOCK_NB)
                self.locks.append(fd)
                self.q.put(os.path.join(C.BUILD, f"k{i}"))
                got += 1
            except OSError:
                os.close(fd)
            i += 1

    def dirs(self):
        return list(self.q.queue)

    def acquire(self):
        return self.q.get()

    def release(self, d):
        self.q.put(d)

    def close(self):
        for fd in self.locks:
            try:
                fcntl.flock(fd, fcntl.LOCK_UN)
                os.close(fd)
            except OSError:
                pass


def sync_lock():
    shutil.copyfile(os.path.join(C.REPO, "Cargo.lock"), os.path.join(C.KANI_CRATE, "Cargo.lock"))


def warm(pool, h0):
    """build once in the first dir, then clone the build output into the other (empty) pool dirs."""
    dirs = pool.dirs()
    first = dirs[0]
    out, rc, to, dt = run_proc(kani_cmd(h0, first, ["--only-codegen"]), C.KANI_CRATE, 900, 16)
    if rc != 0 or to:
        return False, out
    for d in dirs[1:]:
        if not os.path.isdir(d):
            subprocess.run(["cp", "-a", first, d], check=False)
    return True, out


def run_harness(h, target_dir, timeout=None, extra=()):
    res = Result()
    out, rc, to, dt = run_proc(kani_cmd(h, target_dir, extra), C.KANI_CRATE, timeout or h.timeout, h.mem_gb)
    res.time = dt
    res.log = out
    if to:
        res.status = "timeout"
        return res
    parse(out, res)
    if "error: could not compile" in out or "error[E" in out:
        res.status = "build_error"
    return res


def run_all(hs, jobs=None, on_done=None, timeout_scale=1.0):
    """run harnesses concurrently; returns {full_name: Result}"""
    if not hs:
        return {}
    jobs = min(jobs or C.NCPU, len(hs))
    pool = Pool(jobs)
    sync_lock()
    ok, out = warm(pool, hs[0])
    results = {}
    if not ok:
        for h in hs:
            r = Result()
            r.status = "build_error"
            r.log = out
            results[h.full] = r
        pool.close()
        return results
    work = queue.Queue()
    # longest first
    for h in sorted(hs, key=lambda x: -x.timeout):
        work.put(h)
    lock = threading.Lock()
    # harnesses that execute a whole FRI verifier run (mem >= 16) reach 9-12 GB each: more than five of them at once exhaust a 62 GB
    # machine (CBMC is then killed and the obligation reported as "error")
    heavy = threading.Semaphore(int(os.environ.get("VERIF_HEAVY", "5")))

    def worker():
        while True:
            try:
                h = work.get_nowait()
            except queue.Empty:
                return
            is_heavy = h.mem_gb >= 16
            if is_heavy:
                heavy.acquire()
            d = pool.acquire()
            try:
                r = run_harness(h, d, timeout=int(h.timeout * timeout_scale))
            finally:
                pool.release(d)
                if is_heavy:
                    heavy.release()
            with lock:
                results[h.full] = r
            if on_done:
                on_done(h, r)

    ts = [threading.Thread(target=worker) for _ in range(jobs)]
    for t in ts:
        t.start()
    for t in ts:
        t.join()
    pool.close()
    return results


# ------------------------------------------------------------------------------------------------
PLAYBACK_RE = re.compile(r"```\s*\n(.*?)```", re.S)


def concrete_playback(h, target_dir, timeout=900, base_time=None):
    """re-run a failing harness with concrete playback; returns list of generated unit tests (source).
    The playback run repeats the verification with trace generation: its time limit scales with the time the harness took."""
    if base_time:
        timeout = max(timeout, int(6 * base_time) + 300)
    # kani-driver holds CBMC's whole JSON trace in memory (measured: up to 26 GB for harnesses that execute a verifier run); two of
    # those at once invoke the kernel's OOM killer. Playbacks of such harnesses are serialised machine-wide with a lock file.
    lk = None
    if h.fs:
        lk = open(os.path.join(C.VERIF, ".build", "playback.lock"), "w")
        fcntl.flock(lk, fcntl.LOCK_EX)
    try:
        return _concrete_playback(h, target_dir, timeout)
    finally:
        if lk:
            fcntl.flock(lk, fcntl.LOCK_UN)
            lk.close()


def _concrete_playback(h, target_dir, timeout):
    out, rc, to, dt = run_proc(
        kani_cmd(h, target_dir, ["-Z", "concrete-playback", "--concrete-playback=print"]),
        C.KANI_CRATE, timeout, max(h.mem_gb, 40))   # the driver parses CBMC's full trace: needs far more address space than the verification run
    tests = []
    for m in PLAYBACK_RE.finditer(out):
        body = m.group(1)
        if "kani_concrete_playback" in body:
            tests.append(body.replace("\r", ""))
    if to:
        out += f"\n[concrete playback timed out after {timeout} s]"
    if not tests and "No exit code?" in out:
        out += "\n[kani-driver was killed while reading the trace (memory allocation of / kernel OOM killer)]"
    return tests, out


def boundary_candidates(h, limit=4096):
    """Fallback when no playback could be produced for a harness whose symbolic inputs are few and small (kv any_sizes="1,4,..":
    the byte sizes of its kani::any() draws, in order): candidate inputs built from boundary values, to be run NATIVELY until one
    panics at the reported location. The solver has already decided that a violating input exists; this only finds a replayable one."""
    spec = h.kv.get("any_sizes")
    if not spec:
        return None
    sizes = [int(x) for x in spec.split(",")]   # NB: an array [T; N] draws N separate values
    import itertools, random
    per = []
    for n in sizes:
        if n == 1:
            vals = [[v] for v in (range(256) if len(sizes) <= 2 else (0, 1, 2, 3, 16, 100, 127, 128, 255))]
        else:
            vals = [[0] * n, [255] * n, [1] + [0] * (n - 1), [0] * (n - 1) + [128], [0] * (n - 1) + [1], [3] + [1] * (n - 1)]
            vals += [[v] + [0] * (n - 1) for v in (2, 7, 16, 100, 200)] + [[255] * (n - 1) + [127]]
        per.append(vals)
    total = 1
    for v in per:
        total *= len(v)
    if total <= limit:
        combos = [list(c) for c in itertools.product(*per)]
    else:
        rnd = random.Random(12345)
        combos = [[v[0] for v in per], [v[-1] for v in per], [v[1 % len(v)] for v in per]]
        while len(combos) < limit:
            combos.append([rnd.choice(v) for v in per])
    body = ", ".join("vec![" + ", ".join("vec![" + ", ".join(map(str, d)) + "]" for d in c) + "]" for c in combos)
    return (f"#[test]\nfn kani_concrete_playback_boundary_scan() {{\n    let cands: Vec<Vec<Vec<u8>>> = vec![{body}];\n"
            f"    let mut hits = 0;\n    for c in cands {{\n        let shown = format!(\"{{:?}}\", c);\n"
            f"        if std::panic::catch_unwind(|| kani::concrete_playback_run(c, {h.name})).is_err() {{ eprintln!(\"BOUNDARY-CANDIDATE-PANICKED kani::any() draws {{}}\", shown); hits += 1; if hits >= 24 {{ break; }} }}\n    }}\n"
            f"    assert!(hits == 0);\n}}\n")


def native_replay(h, test_src, timeout=600, fail_locs=None, strict=False):
    """append the generated #[test] to a scratch copy of the harness crate and run it natively with
    `cargo kani playback` (dev profile = the profile Kani models) -- the real /repo code runs with the
    solver's concrete values. Returns (reproduced, output)."""
    scratch = os.path.join(C.BUILD, "playback", h.name)
    if os.path.isdir(scratch):
        shutil.rmtree(scratch)
    os.makedirs(os.path.dirname(scratch), exist_ok=True)
    shutil.copytree(C.KANI_CRATE, scratch, ignore=shutil.ignore_patterns("target"))
    modfile = os.path.join(scratch, "src", h.module + ".rs")
    with open(modfile, "a") as f:
        f.write("\n" + test_src + "\n")
    tn = re.search(r"fn (kani_concrete_playback_\w+)", test_src)
    tname = tn.group(1) if tn else "kani_concrete_playback"
    cmd = ["cargo", "kani", "playback", "-Z", "concrete-playback", "--", tname]
    out, rc, to, dt = run_proc(cmd, scratch, timeout, 16)
    if to:
        return True, out + "\n[replay timed out: counted as reproduced non-termination]"
    reproduced = ("test result: FAILED" in out) or ("panicked at" in out)
    ran = "running 1 test" in out
    if not ran:
        return None, out
    # A native panic INSIDE THE HARNESS FILE only confirms the counterexample when it is the check the solver reported:
    # harnesses with #[kani::stub]s run un-stubbed natively, so an unrelated harness assertion can trip (that would be an
    # encoding mismatch, not a defect of /repo). Panics inside /repo or std are accepted as they are.
    if strict:
        # refusal-style harness: panics inside /repo are the expected refusals; only the reported marker location counts
        for m in re.finditer(r"panicked at (\S+?):(\d+):\d+", out):
            if any(ff == os.path.basename(m.group(1)) and abs(ll - int(m.group(2))) <= 3 for ff, ll in (fail_locs or set())):
                return True, out
        return False, out + "\n[strict replay: no panic at the reported marker location]"
    if reproduced and fail_locs is not None:
        for m in re.finditer(r"panicked at (\S+?):(\d+):\d+", out):
            f, ln = os.path.basename(m.group(1)), int(m.group(2))
            # (a multi-line assert! is reported at different lines by Kani and by the native panic message: 3 lines of tolerance)
            if f == h.module + ".rs" and m.group(1).startswith("src/") and not any(ff == f and abs(ll - ln) <= 3 for ff, ll in fail_locs):
                return False, out + f"\n[native panic at {m.group(1)}:{ln} is a harness assertion the solver did not report: not counted as reproduced]"
    return reproduced, out
