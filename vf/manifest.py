"""writes /verif/MANIFEST.json from the table below (python3 -m vf.manifest)"""
import json, os
from . import common as C

K_NOTE = "Kani 0.68 / CBMC 6.11 / CaDiCaL trusted; alloc::fmt::format stubbed; verdicts hold only inside the bounds listed per obligation in the evidence file"
CLAIMED = {
    # id: (engine, technique, level text, level note, design ref)
    "C03": ("kani", "bounded model checking (Kani/CBMC): component-level binding and no-ignored-payload obligations over symbolic proof components",
            "every sub-parser consumes its encoding completely, leaves are recomputed from opened values, Merkle openings bind claimed leaves (injective transparent hash) and carry no unused payload; decided per component for all symbolic payloads within the stated sizes",
            K_NOTE + "; whole-proof bit flips through verify() and the FRI-remainder substitution are outside (see DESIGN C03/C05)", "DESIGN.md §2 C03"),
    "C04": ("kani", "bounded model checking (Kani/CBMC): a transparent recording coin is substituted for the RandomCoin type parameter of the real ProverChannel / fri prover channel / FriProver::build_layers / FriVerifier::new; messages symbolic",
            "channel layer: the coin is seeded with H(context || public inputs); every commit_*/send_* absorbs exactly its message, in order, before the next draw; the grinding nonce meets the factor and is the one used for the query positions and stored in the proof; the proof carries exactly the absorbed commitments and OOD values; FRI prover/verifier absorb each layer commitment before drawing its alpha; every trace-metadata byte reaches the seed",
            K_NOTE + "; toy AIR and toy field; the ORDER OF STEPS inside Prover::generate_proof and verifier::perform_verification (whole-run behaviour) is outside the claim", "DESIGN.md §2 C04"),
    "C05": ("kani", "bounded model checking (Kani/CBMC) of the real FriVerifier on honest toy proofs produced natively by the real FriProver; one proof component per harness symbolic, injected late through a wrapper channel",
            "deterministic enforcement only: accepted => the remainder is the committed one; accepted <=> (remainder within the degree bound and agreeing with the last folded evaluations at every queried position) for a prover that commits to another remainder; accepted => claimed evaluations equal the committed layer values; accepted => every queried cell of every layer equals the folding of the previous layer -- for all values of the symbolic component on each enumerated parameter set",
            K_NOTE + "; F_257 / PairHash128 / CtrCoin instantiation; probabilistic soundness (far-from-low-degree functions are rejected with high probability) is outside any solver's reach and NOT claimed; parameter sets enumerated in vf/gen/c05.py", "DESIGN.md §2 C05"),
    "C06": ("kani", "bounded model checking (Kani/CBMC) of the real deserializers and second-stage parsers over symbolic byte buffers",
            "every byte string up to the stated buffer bound (first stage) and every payload for each enumerated length/count layout (second stage) is decided against Kani's panic/overflow/bounds checks; the entry of verify() on untrusted proof fields (claimed field modulus of 1/2/4/9 arbitrary bytes through the real verify() with a toy AIR, the num_unique_queries byte through Queries::parse, leaf counts that differ from the position count) returns errors",
            K_NOTE + "; hashers inside parsers replaced by a harness mixer; verify() past channel construction outside the claim", "DESIGN.md §2 C06"),
    "C07": ("mir-smt+kani", "symbolic execution of the rustc MIR of the field kernels into SMT (bit-vector and integer encodings), decided by a z3/cvc5 portfolio; Kani for loop termination on zero representations",
            "full-width (no value-range reduction) functional correctness of the loop-free 62/64/128-bit field operations, conversions and constants modulo the prime, and absence of arithmetic panics; counterexamples are lifted to the public API and replayed natively; exponentiation corner cases (bases 0 and 1, every exponent) on the real fields and the trait's default exp/exp_vartime at F_257 (exponents < 32)",
            "rustc MIR dump, own translator (validated per run against native execution), z3 4.8/5.1, cvc5 1.0; Fermat/primality trusted; data-dependent loops (f62/f128 inv beyond zero, exp) outside", "DESIGN.md §2 C07"),
    "C08": ("mir-smt+kani", "MIR -> SMT with ring abstraction: extension-field formulas checked as polynomial identities over the integers; bounded model checking (Kani/CBMC) of the generic Quad/CubeExtension inv/conjugate/div/slice code at F_257 on symbolic slices",
            "mul/square/mul_base/frobenius and the generic Quad/Cube wrappers equal schoolbook arithmetic modulo the documented irreducible for all operands, as integer identities (hold in every commutative ring)",
            "relative to C07 (base operations abstracted as ring operations); irreducibility outside; inversion / conjugation / division of the generic wrappers are decided at the toy field F_257 only (one symbolic coordinate per harness), not over the 64-bit fields", "DESIGN.md §2 C08"),
    "C09": ("kani", "bounded model checking (Kani/CBMC) of the generic FFT code instantiated at a toy field F_257, on symbolic slices",
            "for each enumerated size/position the solver shows output == Horner evaluation at offset*w^i (resp. interpolation inverts evaluation) for all 257 values of the symbolic coefficient; the same for the prover's segmented, column-batched LDE (RowMatrix::evaluate_polys[_over], Segment, ColMatrix::get_base_element) over base, quadratic and cubic columns, batch sizes 1/2/4 and domain offsets other than the generator",
            K_NOTE + "; toy field instantiation (transfer to the real fields rests on C07/C08); sizes >= 64, all-coefficients-symbolic and the concurrent variants outside", "DESIGN.md §2 C09"),
    "C10": ("kani", "bounded model checking (Kani/CBMC) with an injective transparent hasher: positive (prove->verify) and binding (accept => committed leaves, no surplus payload) obligations",
            "for trees of 4/8(/16) leaves and enumerated position lists and opening shapes, for all symbolic digests: honest openings verify and decompress; an accepted opening claims exactly the committed leaves and has the honest shape",
            K_NOTE + "; PairHash (free-algebra model of a collision-resistant hash) inside its width budget; std BTreeMap replaced by a sorted-Vec map under cfg(winterfell_verif); symbolic positions outside", "DESIGN.md §2 C10"),
    "C11": ("mir-smt+kani", "MIR -> SMT for the MDS kernels (all 2^(32*12) limb states, integer encoding); bounded model checking (Kani/CBMC) of the sponge byte/element encoding with the permutation stubbed by a transparent recorder",
            "frequency-domain MDS multiplication (12x12, 8x8) has no intermediate overflow and equals the circulant matrix product for every state; byte hashing of Rp64_256 / Rp62_248 / RpJive64_256 is total for every length up to the bound and (Rp64_256, RpJive64_256) injective on the sequence of absorbed states (length and trailing zeros distinguished); merge == hash_elements of the concatenation; merge_with_int injective in the integer over all 64-bit values (all three hashers); hash_elements presents the same sponge states for the same residues typed as base, quadratic or cubic elements (Rp64_256, RpJive64_256)",
            "Engine M: rustc MIR dump, own translator, z3/cvc5; Engine K: " + K_NOTE + "; the Rescue permutation itself (S-box chains, rounds) against a reference, Blake3/SHA3 (external crates) and their wrappers are outside; BaseElement::new stubbed by the identity embedding of v mod M in the encoding harnesses", "DESIGN.md §2 C11"),
    "C12": ("kani", "bounded model checking (Kani/CBMC) of encode->decode round trips over symbolic constructor arguments",
            "for every value the public constructors accept (arguments symbolic under the documented preconditions) decode(encode(x)) == x and the reader is exhausted; collection sizes enumerated and small; FRI proofs with remainders of 6/10/12 arbitrary bytes decode and re-encode to the same bytes; the streaming byte source is covered by the C13 compaction members",
            K_NOTE + "; field-element encodings (Montgomery maps) decided under C07", "DESIGN.md §2 C12"),
    "C13": ("kani", "bounded model checking (Kani/CBMC): differential harness ReadAdapter vs SliceReader, operation sequences and chunkings enumerated, stream contents symbolic",
            "for each enumerated (operation sequence, stream length, chunk size) and every stream content the streaming reader returns exactly what the slice reader returns and is never pessimistic in check_eor; eight sequences of long read_slice calls that trigger the adapter's storage compaction, compared at a symbolic index",
            K_NOTE + "; sequences longer than 4 operations, streams other than the enumerated lengths (0..9, 257..260 bytes), io errors other than short reads outside", "DESIGN.md §2 C13"),
    "C15": ("kani", "bounded model checking (Kani/CBMC) at F_257: folding identity on symbolic slices, position folding / layout / layer count over fully symbolic integers",
            "apply_drp equals the coefficient-domain definition for every challenge (resp. every value of one coefficient) on the enumerated domains; fold_positions, map_positions_to_indexes and num_fri_layers equal their reference for all arguments in range; FriVerifier::new accepts exactly the layer counts whose degree bookkeeping is consistent, for all degree bounds 2^k-1, blowups and remainder sizes; FriProofLayer::parse accepts exactly whole numbers of queries of base/quadratic/cubic elements and recomputes the leaves; honest toy proofs of the real prover are accepted by the real verifier (concrete instances)",
            K_NOTE + "; end-to-end acceptance is decided on the enumerated toy instances only (concrete runs), not for all polynomials", "DESIGN.md §2 C15"),
    "C16": ("kani", "bounded model checking (Kani/CBMC) at F_257 over fully symbolic assertions, steps and exemption counts",
            "transition divisor vanishes exactly on non-exempt steps (exemption count symbolic and, separately, enumerated), assertion divisors exactly on named steps, overlaps_with == step-set intersection, validation rules -- for every well-formed assertion (pair) at trace lengths 8 and 16; every periodic/sequence assertion the constructors return (arguments over the full usize range) is well-formed, i.e. ill-formed ones are refused",
            K_NOTE + "; toy field; trace lengths > 16 (32 thorough); BoundaryConstraint value polynomials outside", "DESIGN.md §2 C16"),
    "C18": ("kani", "bounded model checking (Kani/CBMC) of the integer security estimate and the acceptance policy over the whole parameter space",
            "conjectured level == documented formula, monotone, never underflows (also for a proof claiming an arbitrary 1-2 byte field modulus); validate refuses exactly below the minimum / outside the option set -- for all queries, blowups, grinding factors, extensions, trace lengths, 3 fields x collision resistances; MinProvenSecurity consults the proven estimate (stubbed by a constant), MinConjecturedSecurity the conjectured one",
            K_NOTE + "; the proven estimate (f64 log2/powf/sqrt) cannot be decided by CBMC and is outside", "DESIGN.md §2 C18"),
    "C19": ("kani", "bounded model checking (Kani/CBMC): DefaultRandomCoin over a transparent hasher against a reference coin, symbolic seeds/reseed data/nonces",
            "for each enumerated history (<= 6 operations) outputs equal a function of the whole history for every symbolic seed, digest and nonce, including a history in which every draw meets a rejected candidate first; integer draws are full-width, in range and of the requested count (counts <= 3); drawn elements are canonical; merge_with_int of the three Rescue hashers is injective in the nonce over all 64-bit values",
            K_NOTE + "; real hashers inside the coin and rejection loops beyond 3 candidates outside", "DESIGN.md §2 C19"),
    "C20": ("kani", "bounded model checking (Kani/CBMC) at F_257 on symbolic slices against schoolbook references",
            "add/sub/mul/div/syn_div (with and without remainder, dividends shorter than twice the divisor degree)/eval/interpolate/poly_from_roots/degree/power series/mul_acc/batch_inversion satisfy their defining identities for all values of the symbolic operands at the enumerated sizes",
            K_NOTE + "; toy field; lengths around the 1024 batching threshold outside", "DESIGN.md §2 C20"),
}
NOT_APPLICABLE = {
    "C01": "completeness needs whole prove+verify runs (LDE, hashing every row, FRI) per trace: not encodable for a solver within reach (DESIGN §1 measured limits); boundary-parameter ingredients are decided under C06/C12",
    "C02": "soundness is probabilistic (Schwartz-Zippel) and needs whole runs with real hashes; over a solver-sized field the statement is false with noticeable probability; deterministic ingredient covered by C16",
    "C14": "Kani/CBMC do not model threads and rayon is not encodable; no schedule-quantified encoding is within reach",
    "C17": "needs DefaultConstraintEvaluator over a trace LDE for a concrete AIR (thousands of container operations before the first field op): not encodable within reach",
}


def build():
    checks = []
    for pid in sorted(CLAIMED):
        eng, tech, text, note, ref = CLAIMED[pid]
        checks.append({
            "property_id": pid,
            "quick_cmd": f"./check {pid} --tier quick",
            "thorough_cmd": f"./check {pid} --tier thorough",
            "evidence_file": f"/verif/evidence/{pid}.json",
            "replay_cmd_template": "./check --replay {path}",
            "engine": eng,
            "level_claimed": {"category": "model_checking", "text": text, "design_ref": ref},
            "level_note": note,
            "technique": tech,
        })
    props = [json.loads(l)["id"] for l in open(os.path.join(C.VERIF, "properties.jsonl"))]
    na = [{"property_id": p, "reason": NOT_APPLICABLE.get(p, "check not built yet (work in progress): see DESIGN.md")}
          for p in props if p not in CLAIMED]
    m = {
        "version": 1,
        "setup_cmd": "./setup.sh",
        "hooks": {
            "guard": "--cfg winterfell_verif",
            "enable": "RUSTFLAGS=\"--cfg winterfell_verif\" (cargo kani honours it); Engine M reads MIR and needs no hooks",
            "baseline_off_cmd": "cd /repo && cargo test --workspace --no-fail-fast --offline",
            "source_commits": HOOK_COMMITS,
            "add_only": True,
        },
        "engines": [
            {"name": "kani", "path": "/verif/kani", "serves_properties": sorted(p for p in CLAIMED if "kani" in CLAIMED[p][0]),
             "kind_free_text": "Kani 0.68 / CBMC 6.11 harness crate with path dependencies on /repo"},
            {"name": "mir-smt", "path": "/verif/vf/mirsmt", "serves_properties": sorted(p for p in CLAIMED if "mir" in CLAIMED[p][0]),
             "kind_free_text": "own MIR -> SMT-LIB translator (nightly -Zunpretty=mir) + z3/cvc5 portfolio"},
        ],
        "checks": checks,
        "not_applicable": na,
        "notes": "All checks are solver-decided within stated bounds; see DESIGN.md. known_findings.json lists genuine defects that are recorded rather than repaired.",
    }
    with open(os.path.join(C.VERIF, "MANIFEST.json"), "w") as f:
        json.dump(m, f, indent=1)


HOOK_COMMITS = ["726c754", "525edb1"]

if __name__ == "__main__":
    build()
