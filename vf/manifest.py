"""writes /verif/MANIFEST.json from the table below (python3 -m vf.manifest)"""
import json, os
from . import common as C

CLAIMED = {
    # id: (engine, technique, level text, level note, design ref)
    "C06": ("kani", "bounded model checking (Kani/CBMC) of the real deserializers over fully symbolic byte buffers",
            "every byte string up to the stated buffer bound is decided by the SAT back end against Kani's panic/overflow/bounds checks; says nothing beyond the bound",
            "Kani/CBMC/CaDiCaL trusted; alloc::fmt::format stubbed; hashers inside parsers replaced by a harness mixer; verify() past channel construction outside the claim",
            "DESIGN.md §2 C06"),
    "C12": ("kani", "bounded model checking (Kani/CBMC) of encode->decode round trips over symbolic constructor arguments",
            "for every value the public constructors accept (arguments symbolic under the documented preconditions) the solver shows decode(encode(x)) == x and that the reader is exhausted; collection sizes are enumerated and small",
            "Kani/CBMC trusted; field-element encodings (Montgomery maps) are decided under C07 by Engine M; collection lengths beyond the enumerated ones outside the claim",
            "DESIGN.md §2 C12"),
    "C13": ("kani", "bounded model checking (Kani/CBMC): differential harness ReadAdapter vs SliceReader, operation sequences and chunkings enumerated, stream contents symbolic",
            "for each enumerated (operation sequence, stream length, chunk size) the solver shows for every stream content that the streaming reader returns exactly what the slice reader returns and is never pessimistic in check_eor",
            "Kani/CBMC trusted; sequences longer than 4 operations, streams other than the enumerated lengths (0..9 and 257..260 bytes) and io errors other than short reads are outside the claim",
            "DESIGN.md §2 C13"),
}
NOT_APPLICABLE = {
    "C01": "completeness needs whole prove+verify runs (LDE, hashing every row, FRI) per trace: not encodable for a solver within reach (DESIGN §1 measured limits); boundary-parameter ingredients are decided under C06/C12",
    "C02": "soundness is probabilistic (Schwartz-Zippel) and needs whole runs with real hashes; over a solver-sized field the statement is false with noticeable probability; deterministic ingredient covered by C16",
    "C14": "Kani/CBMC do not model threads and rayon is not encodable; no schedule-quantified encoding is within reach",
    "C17": "needs DefaultConstraintEvaluator over a trace LDE for a concrete AIR (thousands of container operations before the first field op): not encodable within reach",
}


def build():
    checks = []
    for pid in sorted(CLAIMED):
        eng, tech, text, note, ref = CLAIMED[pid]
        checks.append({
            "property_id": pid,
            "quick_cmd": f"./check {pid} --tier quick",
            "thorough_cmd": f"./check {pid} --tier thorough",
            "evidence_file": f"/verif/evidence/{pid}.json",
            "replay_cmd_template": "./check --replay {path}",
            "engine": eng,
            "level_claimed": {"category": "model_checking", "text": text, "design_ref": ref},
            "level_note": note,
            "technique": tech,
        })
    props = [json.loads(l)["id"] for l in open(os.path.join(C.VERIF, "properties.jsonl"))]
    na = [{"property_id": p, "reason": NOT_APPLICABLE.get(p, "check not built yet (work in progress): see DESIGN.md")}
          for p in props if p not in CLAIMED]
    m = {
        "version": 1,
        "setup_cmd": "./setup.sh",
        "hooks": {
            "guard": "--cfg winterfell_verif",
            "enable": "RUSTFLAGS=\"--cfg winterfell_verif\" (cargo kani honours it); Engine M reads MIR and needs no hooks",
            "baseline_off_cmd": "cd /repo && cargo test --workspace --no-fail-fast --offline",
            "source_commits": HOOK_COMMITS,
            "add_only": True,
        },
        "engines": [
            {"name": "kani", "path": "/verif/kani", "serves_properties": sorted(p for p in CLAIMED if "kani" in CLAIMED[p][0]),
             "kind_free_text": "Kani 0.68 / CBMC 6.11 harness crate with path dependencies on /repo"},
            {"name": "mir-smt", "path": "/verif/vf/mirsmt", "serves_properties": sorted(p for p in CLAIMED if "mir" in CLAIMED[p][0]),
             "kind_free_text": "own MIR -> SMT-LIB translator (nightly -Zunpretty=mir) + z3/cvc5 portfolio"},
        ],
        "checks": checks,
        "not_applicable": na,
        "notes": "All checks are solver-decided within stated bounds; see DESIGN.md. known_findings.json lists genuine defects that are recorded rather than repaired.",
    }
    with open(os.path.join(C.VERIF, "MANIFEST.json"), "w") as f:
        json.dump(m, f, indent=1)


HOOK_COMMITS = ["726c754", "525edb1"]

if __name__ == "__main__":
    build()
