"""Shared paths, evidence writer, known-findings handling for the /verif checks."""
import json, os, sys, time, hashlib, re

VERIF = os.path.dirname(os.path.dirname(os.path.abspath(__file__)))
REPO = os.environ.get("VERIF_REPO", "/repo")
ALT = REPO.rstrip("/") != "/repo"
# VERIF_REPO=<scratch worktree> (seeded-mutation evaluation only): everything that is built or written -- harness crate copy,
# target dirs, MIR dumps, evidence, replays -- lives under .build/alt-<hash>/ so that runs against different trees never mix
# and the registered evidence under /verif/evidence is only ever written by runs against /repo itself.
BUILD = os.path.join(VERIF, ".build") if not ALT else os.path.join(VERIF, ".build", "alt-" + hashlib.sha1(REPO.encode()).hexdigest()[:8])
KANI_CRATE = os.path.join(VERIF, "kani") if not ALT else os.path.join(BUILD, "kani")
NATIVE_CRATE = os.path.join(VERIF, "native") if not ALT else os.path.join(BUILD, "native")
REPLAY_CRATE = os.path.join(VERIF, "replay")
EVIDENCE = os.path.join(VERIF, "evidence") if not ALT else os.path.join(BUILD, "evidence")
REPLAYS = os.path.join(VERIF, "replays") if not ALT else os.path.join(BUILD, "replays")
KNOWN = os.path.join(VERIF, "known_findings.json")
GUARD = "winterfell_verif"
NCPU = int(os.environ.get("VERIF_JOBS", "16"))


def sync_alt():
    """VERIF_REPO runs: mirror the harness and native crates into BUILD with their path dependencies pointed at the tree"""
    if not ALT:
        return
    import shutil, subprocess, tempfile
    # the crates are taken from /verif's COMMITTED state (git HEAD), not from the working tree: evaluations of seeded changes run for
    # hours in the background and must not pick up half-edited harness files (a compile error there silently turns every
    # obligation into "inconclusive: build_error")
    snap = tempfile.mkdtemp(prefix="vfsnap")
    p1 = subprocess.run(f"git -C {VERIF} archive HEAD kani native | tar -x -C {snap}", shell=True)
    use_snap = p1.returncode == 0 and os.path.isdir(os.path.join(snap, "kani"))
    for name, dst in (("kani", KANI_CRATE), ("native", NATIVE_CRATE)):
        src = os.path.join(snap if use_snap else VERIF, name)
        for d, dirs, fs in os.walk(src):
            dirs[:] = [x for x in dirs if x != "target"]
            for fn in fs:
                if fn.startswith("gen_") or fn == "Cargo.lock":
                    continue
                sp = os.path.join(d, fn)
                dp = os.path.join(dst, os.path.relpath(sp, src))
                os.makedirs(os.path.dirname(dp), exist_ok=True)
                txt = open(sp).read()
                if fn == "Cargo.toml":
                    txt = txt.replace('"/repo/', '"' + REPO.rstrip("/") + "/")
                if not os.path.exists(dp) or open(dp).read() != txt:
                    open(dp, "w").write(txt)
    shutil.rmtree(snap, ignore_errors=True)


def seed():
    try:
        return int(os.environ.get("VERIF_SEED", "1"))
    except ValueError:
        return 1


def log(*a):
    print(*a, flush=True)


def load_known():
    """known_findings.json: {"findings":[{"property","key","what", "status": "open"|"fixed", ...}]}
    Only entries with status == "open" suppress anything. Never written at run time."""
    try:
        with open(KNOWN) as f:
            return json.load(f).get("findings", [])
    except FileNotFoundError:
        return []


def known_match(prop, key):
    """key: string identifying the failing obligation + location/role. An open entry matches when its
    'key' equals the computed key (exact) -- any other failure of the same property is still a violation."""
    for e in load_known():
        if e.get("status") == "open" and e.get("property") == prop and e.get("key") == key:
            return e
    return None


DEBUG_RUN = False   # set by vf.main for --only / --to / --no-replay runs: their evidence goes to .build/debug-evidence, never to /verif/evidence


def write_evidence(prop, tier, cov, assumptions, wall, violations, level="model_checking"):
    global EVIDENCE
    if DEBUG_RUN:
        EVIDENCE = os.path.join(BUILD, "debug-evidence")
    os.makedirs(EVIDENCE, exist_ok=True)
    ev = {
        "property_id": prop,
        "tier": tier,
        "seed": seed(),
        "level": level,
        "coverage": cov,
        "assumptions": assumptions,
        "wall_s": round(wall, 2),
        "violations": violations,
    }
    p = os.path.join(EVIDENCE, prop + ".json")
    tmp = p + ".tmp"
    with open(tmp, "w") as f:
        json.dump(ev, f, indent=1, sort_keys=False)
    os.replace(tmp, p)
    return p


def repo_fingerprint():
    """hash of the working-tree sources the encodings are generated from (recorded in evidence)."""
    h = hashlib.sha256()
    for root in ["utils/core/src", "math/src", "crypto/src", "fri/src", "air/src", "prover/src", "verifier/src"]:
        for d, _, fs in sorted(os.walk(os.path.join(REPO, root))):
            for fn in sorted(fs):
                if fn.endswith(".rs"):
                    p = os.path.join(d, fn)
                    h.update(p.encode())
                    with open(p, "rb") as f:
                        h.update(f.read())
    return h.hexdigest()[:16]
