"""harness-family generators: each writes kani/src/gen_<x>.rs from /repo-independent templates."""
import importlib, os, pkgutil


def generate_all():
    here = os.path.dirname(__file__)
    for m in sorted(pkgutil.iter_modules([here])):
        mod = importlib.import_module(f"vf.gen.{m.name}")
        if hasattr(mod, "generate"):
            mod.generate()
