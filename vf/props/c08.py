"""C08 -- extension-field arithmetic equals polynomial arithmetic modulo the documented irreducible polynomial.

Ring-abstraction mode of Engine M: the REAL MIR of `impl ExtensibleField<2|3> for BaseElement` (per base field) and of the
generic wrappers `QuadExtension<B>` / `CubeExtension<B>` (instantiated at B := the base field) is executed with every call
to the base field's add / sub / mul / neg / double / square / new(const) / ZERO / ONE replaced by the corresponding
operation of the ring Z.  The resulting polynomial identities are decided over the integers (an identity over Z holds in
every commutative ring, hence in F_p); the constant-only Frobenius facts of the cubic extensions are decided modulo p.
"""
from ..mirsmt import terms as S
from ..mirsmt import translate as X
from ..mirsmt.lib import (FIELDS, find, run, short_fns, require_trivial, Query, Validation, Replay, Built, Obligation, NotEncodable)
from ..mirsmt.terms import And, Or, Not, Eq, Ne, intc

ASSUMPTIONS = [
    "ring abstraction: base-field add/sub/mul/neg/double/square are replaced by the operations of Z; this is justified by the C07 obligations "
    "of the same field (each operation computes the right residue and preserves the representation invariant) -- C08 verdicts are relative to C07",
    "the f64 findings of C07 (double / mul_small may return a non-canonical internal value) also affect extension elements built from such values: "
    "the residues computed by the extension formulas are right (this property), but `==` on extension elements compares base coefficients with the "
    "base field's `==`",
    "an identity over Z transfers to every commutative ring; the identities are decided by the solvers' nonlinear integer arithmetic (Int encoding "
    "only: operands are unbounded integers, so there is no bit-vector twin)",
    "irreducible polynomials as documented in the source comments: f64: x^2-x+2, x^3-x-1; f62: x^2-x-1, x^3+2x+2; f128: x^2-x-1. Irreducibility "
    "itself is not checked",
    "cubic Frobenius: the map is linear with constant coefficients by construction; the obligations decide (mod p, constant-only, evaluated by the solver "
    "through the real mul/frobenius formulas) that psi = frob(phi) is a root of the irreducible, frob(1) = 1, frob(phi^2) = psi^2, psi != phi and "
    "frob^3 = id on the basis -- i.e. frob is a non-trivial ring automorphism fixing the base field (over F_p of degree 3 the only ones are x^p and x^(p^2); "
    "which of the two is NOT decided); cubic inv / norm-in-base-field for symbolic operands and every `inv` are outside (need base-field inversion)",
    "slice reinterpretation (slice_as_base_elements etc.), serialization and the From<u8/u16/u32>/TryFrom conversions of extension elements are not "
    "encoded here (Engine K / C12)",
]

# phi^deg expressed in the lower powers, per (field, degree):  phi^d = sum red[i] * phi^i
RED = {("f64", 2): [-2, 1], ("f64", 3): [1, 1, 0], ("f62", 2): [1, 1], ("f62", 3): [-2, -2, 0], ("f128", 2): [1, 1]}
POLY = {("f64", 2): "x^2-x+2", ("f64", 3): "x^3-x-1", ("f62", 2): "x^2-x-1", ("f62", 3): "x^3+2x+2", ("f128", 2): "x^2-x-1"}
W = 2 ** 64


def schoolbook(a, b, red):
    d = len(red)
    c = [intc(0)] * (2 * d - 1)
    for i in range(d):
        for j in range(d):
            c[i + j] = c[i + j] + a[i] * b[j]
    for k in range(2 * d - 2, d - 1, -1):
        for i in range(d):
            if red[i]:
                c[k - d + i] = c[k - d + i] + c[k] * red[i]
        c[k] = intc(0)
    return c[:d]


def zs(prefix, n):
    return [X.zelem(f"{prefix}{i}") for i in range(n)]


def arr(vals):
    return X.Agg(vals, "array")


def ext_struct(vals, deg):
    return X.Agg(vals, "struct:" + ("QuadExtension" if deg == 2 else "CubeExtension"))


def items(v):
    if isinstance(v, X.Agg):
        return [x.t for x in v.items]
    raise NotEncodable("expected an array/struct of abstract elements")


def to_inner(F, v):
    return v * W % F["M"] if F["mont"] else v % F["M"]


def from_inner(F, x):
    return x * pow(W, -1, F["M"]) % F["M"] if F["mont"] else x % F["M"]


def validation(F, deg, natop, names, outs, prefix=None):
    """native ExtensibleField op on canonical values vs the Z-polynomials reduced mod M"""
    M = F["M"]
    prefix = prefix or f"ext{deg}_"

    def line(env):
        return f"{F['name']} {prefix}{natop} " + " ".join(str(to_inner(F, env[n])) for n in names)

    def check(env, got, native):
        return [g % M for g in got] == [from_inner(F, x) for x in native[:len(got)]]
    return Validation("", names, outs, {n: (0, M - 1) for n in names}, special=[0, 1, 2, M - 1, M - 2, (M - 1) // 2], n=60, line_fn=line, check=check)


def identity_query(name, got, exp):
    if len(got) != len(exp):
        raise NotEncodable("arity of result")
    parts = [Eq(g, e) for g, e in zip(got, exp)]
    return Query(name, [], And(*parts), {}, encodings=("int",), locate=[(f"coeff{i}", p) for i, p in enumerate(parts)])


def mismatch_lift(F, deg, natop, names, pyspec, where, prefix=None):
    M = F["M"]
    prefix = prefix or f"ext{deg}_"

    def lift(q, env):
        vals = [env[n] % M for n in names]
        want = [to_inner(F, x) for x in pyspec(vals)]
        # replay: native result (as residues) differs from the schoolbook reference. inner representations may differ for lazy fields -> compare mod M
        exp = {"kind": "any", "of": [{"kind": "tok_mod_ne", "index": i, "value": w % M, "mod": M} for i, w in enumerate(want)]}
        return Replay([f"{F['name']} {prefix}{natop} " + " ".join(str(to_inner(F, v)) for v in vals)], exp, where,
                      f"{F['name']} degree-{deg} {natop} differs from schoolbook arithmetic modulo {POLY[(F['name'], deg)]}")
    return lift


def py_schoolbook(a, b, red, M):
    d = len(red)
    c = [0] * (2 * d - 1)
    for i in range(d):
        for j in range(d):
            c[i + j] += a[i] * b[j]
    for k in range(2 * d - 2, d - 1, -1):
        for i in range(d):
            c[k - d + i] += c[k] * red[i]
        c[k] = 0
    return [x % M for x in c[:d]]


def _inv_from_residues(F, want_residues):
    """expected native tokens for a lazy/Montgomery field cannot be predicted exactly; mismatch_lift compares as_int instead"""
    return want_residues


# =================================================================================================
def ob_trait(fld, deg, meth):
    F = FIELDS[fld]
    red = RED[(fld, deg)]
    M = F["M"]

    def call(prog, args):
        name = prog.find(fld, "ExtensibleField", meth, targs=str(deg))
        if name is None:
            if meth != "square":
                raise NotEncodable(f"no impl ExtensibleField<{deg}>::{meth} for {fld}")
            return run(prog, "ExtensibleField::square", args, subst={"Self": F["self_ty"]}, mode="ring", field=fld)
        return run(prog, name, args, mode="ring", field=fld)

    def build(prog):
        a, b = zs("a", deg), zs("b", deg)
        A, B = [x.t for x in a], [x.t for x in b]
        if meth == "mul":
            ex, r = call(prog, [arr(a), arr(b)])
            names = [x.t.p for x in a + b]
            exp = schoolbook(A, B, red)
            py = lambda v: py_schoolbook(v[:deg], v[deg:], red, M)
        elif meth == "square":
            ex, r = call(prog, [arr(a)])
            names = [x.t.p for x in a]
            exp = schoolbook(A, A, red)
            py = lambda v: py_schoolbook(v, v, red, M)
        elif meth == "mul_base":
            ex, r = call(prog, [arr(a), b[0]])
            names = [x.t.p for x in a] + [b[0].t.p]
            exp = [x * B[0] for x in A]
            py = lambda v: [x * v[deg] % M for x in v[:deg]]
        else:
            raise AssertionError(meth)
        got = items(r)
        q = identity_query("identity", got, exp)
        val = validation(F, deg, meth, names, got)
        if ex.obligations:
            nontrivial = [o for o in ex.obligations if S.Implies(S.And(*o[0]), o[1]) is not S.TRUE]
            if nontrivial:
                raise NotEncodable("unexpected non-trivial panic condition in ring mode: " + nontrivial[0][2])
        return Built([q], short_fns(ex) + [f"abstracted: {x}" for x in sorted(set(ex.abstracted))], [val],
                     mismatch_lift(F, deg, meth, names, py, f"{fld}::ext{deg}_{meth}"),
                     note=f"{len(ex.abstracted)} base-field operations abstracted to Z; {len(ex.obligations)} index assertions folded to true")
    what = {"mul": "schoolbook product", "square": "schoolbook square a*a", "mul_base": "coefficient-wise product with the base element"}[meth]
    return Obligation(f"c08_{fld}_ext{deg}_{meth}", "C08",
                      f"{fld} ExtensibleField<{deg}>::{meth} = {what} modulo {POLY[(fld, deg)]}, as identities over Z in the coefficients",
                      "all operands (unbounded integers; no bound)", build)


def ob_quad_frobenius(fld):
    F = FIELDS[fld]
    red = RED[(fld, 2)]
    M = F["M"]

    def build(prog):
        x, y = zs("a", 2), zs("b", 2)
        fn = find(prog, fld, "ExtensibleField", "frobenius", targs="2")
        mul = find(prog, fld, "ExtensibleField", "mul", targs="2")
        ex, fx = run(prog, fn, [arr(x)], mode="ring", field=fld)
        require_trivial(ex, fn)
        X_, Y_ = [v.t for v in x], [v.t for v in y]
        fxi = items(fx)
        qs = [identity_query("conjugate_formula", fxi, [X_[0] + X_[1], -X_[1]])]
        fns = short_fns(ex)

        def R(name, args):
            e, r = run(prog, name, args, mode="ring", field=fld)
            require_trivial(e, name)
            return items(r)

        def Z(ts):
            return arr([X.Sc(t, "Z") for t in ts])
        ffx = R(fn, [Z(fxi)])
        qs.append(identity_query("involution", ffx, X_))
        norm = R(mul, [arr(x), Z(fxi)])
        qs.append(identity_query("norm_in_base_field", [norm[1]], [intc(0)]))
        fy = R(fn, [arr(y)])
        lhs = R(fn, [Z(R(mul, [arr(x), arr(y)]))])
        rhs = R(mul, [Z(fxi), Z(fy)])
        qs.append(identity_query("multiplicative", lhs, rhs))
        qs.append(identity_query("additive", R(fn, [Z([X_[0] + Y_[0], X_[1] + Y_[1]])]), [fxi[0] + fy[0], fxi[1] + fy[1]]))
        # frob(phi) is a root of the irreducible: psi^2 - red1*psi - red0 = 0 ; and fixes the base field
        psi = R(fn, [Z([intc(0), intc(1)])])
        psi2 = R(mul, [Z(psi), Z(psi)])
        qs.append(identity_query("conjugate_root", [psi2[0] - red[1] * psi[0] - red[0], psi2[1] - red[1] * psi[1]], [intc(0), intc(0)]))
        qs.append(identity_query("fixes_base_field", R(fn, [Z([X_[0], intc(0)])]), [X_[0], intc(0)]))
        names = [v.t.p for v in x]
        val = validation(F, 2, "frobenius", names, fxi)
        py = lambda v: [(v[0] + v[1]) % M, (-v[1]) % M]
        return Built(qs, fns + [mul], [val], mismatch_lift(F, 2, "frobenius", names, py, f"{fld}::ext2_frobenius"))
    return Obligation(f"c08_{fld}_ext2_frobenius", "C08",
                      f"{fld} quadratic frobenius: (a0,a1) -> (a0+a1, -a1); involution; x*frob(x) lies in the base field; additive and multiplicative "
                      f"(w.r.t. the real mul); frob(phi) is the other root of {POLY[(fld, 2)]}; fixes the base field -- identities over Z",
                      "all operands (unbounded integers)", build)


def ob_quad_frobenius_concrete(fld):
    """quadratic Frobenius at the machine level (no ring abstraction): the real MIR with the base field's add / neg INLINED.
    Decides the representation invariant of the result (what the ring abstraction cannot see: a raw write into the element's
    field makes that mode answer `not encodable`) and the residue relation, for every pair of internal representations."""
    F = FIELDS[fld]
    M, rep = F["M"], F["rep"]
    from .c07 import _v
    from ..mirsmt.terms import nat, Lt

    def build(prog):
        s0, s1 = _v("x0", F["ty"]), _v("x1", F["ty"])
        fn = find(prog, fld, "ExtensibleField", "frobenius", targs="2")
        ex, r = run(prog, fn, [arr([X.elem(s0), X.elem(s1)])])
        if not isinstance(r, X.Agg) or len(r.items) != 2:
            raise NotEncodable("frobenius result is not a pair")
        outs = [(it.t if isinstance(it, X.Sc) else X.inner(it)) for it in r.items]
        X0, X1 = nat(s0.t), nat(s1.t)
        R0, R1 = nat(outs[0]), nat(outs[1])
        in_rep = And(Lt(R0, intc(rep)), Lt(R1, intc(rep)))
        rel0 = Or(*[Eq(R0 + intc(k * M), X0 + X1) for k in range(-1, 5)])
        rel1 = Or(*[Eq(R1 + X1, intc(k * M)) for k in range(0, 5)])
        rng = {"x0": (0, rep - 1), "x1": (0, rep - 1)}
        qs = [Query("representation_and_residues", [], And(in_rep, rel0, rel1), rng,
                    locate=[("result_outside_representation_range", in_rep), ("coeff0", rel0), ("coeff1", rel1)])]
        from ..mirsmt.lib import nopanic
        q2 = nopanic(ex, [], rng)
        if q2:
            qs.append(q2)
        val = Validation(f"{fld} ext2_frobenius", ["x0", "x1"], outs, rng, special=[0, 1, 2, M - 1, M, M + 1, rep - 1, (M - 1) // 2], n=60)

        def lift(q, env):
            v0, v1 = env["x0"], env["x1"]
            exp = {"kind": "any", "of": [{"kind": "tok_ge", "index": 0, "value": rep}, {"kind": "tok_ge", "index": 1, "value": rep},
                                         {"kind": "tok_mod_ne", "index": 0, "value": (v0 + v1) % M, "mod": M},
                                         {"kind": "tok_mod_ne", "index": 1, "value": (-v1) % M, "mod": M}]}
            return Replay([f"{fld} ext2_frobenius {v0} {v1}"], exp, f"{fld}::ext2_frobenius/concrete",
                          f"{fld} quadratic frobenius returns a coefficient outside the representation range or with the wrong residue")
        return Built(qs, short_fns(ex), [val], lift, note="machine-level twin of the ring-abstraction obligation")
    return Obligation(f"c08_{fld}_ext2_frobenius_machine", "C08",
                      f"{fld} quadratic frobenius at the machine level: both result coefficients stay inside the representation range "
                      f"([0,M) resp. [0,2M)) and are congruent to (a0+a1, -a1) modulo M, for every pair of internal representations",
                      "all pairs of internal representations, full width", build)


def ob_cubic_frobenius(fld):
    F = FIELDS[fld]
    red = RED[(fld, 3)]
    M = F["M"]

    def build(prog):
        fn = find(prog, fld, "ExtensibleField", "frobenius", targs="3")
        mul = find(prog, fld, "ExtensibleField", "mul", targs="3")
        x = zs("a", 3)
        X_ = [v.t for v in x]
        ex, fx = run(prog, fn, [arr(x)], mode="ring", field=fld)
        require_trivial(ex, fn)
        fxi = items(fx)
        fns = short_fns(ex)

        def R(name, args):
            e, r = run(prog, name, args, mode="ring", field=fld)
            require_trivial(e, name)
            return items(r)

        def Z(ts):
            return arr([X.Sc(t, "Z") for t in ts])

        def modM(ts):
            return [S.raw("imod", [t, intc(M)], S.INT) for t in ts]
        qs = []
        # everything below is evaluated at x = phi (0,1,0) / 1 / phi^2 by the SOLVER: the inputs stay symbolic, fixed by assumptions
        at_phi = [Eq(X_[0], intc(0)), Eq(X_[1], intc(1)), Eq(X_[2], intc(0))]
        at_one = [Eq(X_[0], intc(1)), Eq(X_[1], intc(0)), Eq(X_[2], intc(0))]
        at_phi2 = [Eq(X_[0], intc(0)), Eq(X_[1], intc(0)), Eq(X_[2], intc(1))]
        psi = fxi
        psi2 = R(mul, [Z(psi), Z(psi)])
        psi3 = R(mul, [Z(psi2), Z(psi)])
        root = [psi3[i] - red[1] * psi[i] - red[2] * psi2[i] - (red[0] if i == 0 else 0) for i in range(3)]

        def cq(name, pre, lhs, rhs):
            parts = [S.raw("eq", [a, b], S.BOOL) for a, b in zip(modM(lhs), modM(rhs))]
            return Query(name, pre, S.raw("and", parts, S.BOOL) if len(parts) > 1 else parts[0], {}, encodings=("int",),
                         locate=[(f"coeff{i}", p) for i, p in enumerate(parts)])
        qs.append(cq("psi_is_root", at_phi, root, [intc(0)] * 3))
        qs.append(cq("fixes_one", at_one, fxi, [intc(1), intc(0), intc(0)]))
        # frob(phi^2) = psi^2 : evaluate frob at phi^2 and compare with psi^2 computed at phi (two copies of the variables)
        y = zs("b", 3)
        Y_ = [v.t for v in y]
        fy = R(fn, [arr(y)])
        qs.append(cq("frob_phi2_is_psi2", at_phi + [Eq(Y_[0], intc(0)), Eq(Y_[1], intc(0)), Eq(Y_[2], intc(1))], fy, psi2))
        ne = S.raw("or", [S.raw("not", [S.raw("eq", [a, b], S.BOOL)], S.BOOL) for a, b in zip(modM(psi), modM([intc(0), intc(1), intc(0)]))], S.BOOL)
        qs.append(Query("psi_differs_from_phi", at_phi, ne, {}, encodings=("int",)))
        f2 = R(fn, [Z(modM(fxi))])
        f3 = R(fn, [Z(modM(f2))])
        for nm, pre, tgt in (("cube_is_identity_on_phi", at_phi, [0, 1, 0]), ("cube_is_identity_on_phi2", at_phi2, [0, 0, 1])):
            qs.append(cq(nm, pre, f3, [intc(v) for v in tgt]))
        # linearity: the map has constant coefficients (identity over Z in a, b)
        lin = R(fn, [Z([X_[i] + Y_[i] for i in range(3)])])
        qs.append(identity_query("additive", lin, [fxi[i] + fy[i] for i in range(3)]))
        c = X.zelem("c")
        sc = R(fn, [Z([c.t * X_[i] for i in range(3)])])
        qs.append(identity_query("base_linear", sc, [c.t * fxi[i] for i in range(3)]))
        names = [v.t.p for v in x]
        val = validation(F, 3, "frobenius", names, fxi)
        return Built(qs, fns + [mul], [val], None,
                     note="constant facts are evaluated modulo p by the solver with the inputs fixed through assumptions; together with linearity they make "
                          "frob the evaluation homomorphism at psi, a non-trivial automorphism of order 3")
    return Obligation(f"c08_{fld}_ext3_frobenius", "C08",
                      f"{fld} cubic frobenius: linear with constant coefficients; psi = frob(phi) is a root of {POLY[(fld, 3)]} mod p; frob(1) = 1; "
                      "frob(phi^2) = psi^2; psi != phi; frob^3 = id on the basis", "constant-only mod p + identities over Z for linearity", build)


# =================================================================================================
# generic wrappers QuadExtension<B> / CubeExtension<B> instantiated at B := base field (public API level)
def ob_wrapper(fld, deg, meth):
    F = FIELDS[fld]
    red = RED[(fld, deg)]
    M = F["M"]
    wty = "QuadExtension<B>" if deg == 2 else "CubeExtension<B>"
    table = {
        "add": ("Add", "add", 2), "sub": ("Sub", "sub", 2), "mul": ("Mul", "mul", 2), "neg": ("Neg", "neg", 1),
        "double": ("FieldElement", "double", 1), "square": ("FieldElement", "square", 1), "mul_base": ("ExtensionOf", "mul_base", 1),
        "conjugate": ("FieldElement", "conjugate", 1), "from_base": ("From", "from", 0),
    }
    trait, m, nargs = table[meth]

    def build(prog):
        targs = "B" if meth in ("mul_base", "from_base") else None
        name = prog.find(None, trait, m, targs=targs, type_=wty)
        if name is None:
            raise NotEncodable(f"no impl {trait}::{m} for {wty}")
        a, b = zs("a", deg), zs("b", deg)
        A, B = [x.t for x in a], [x.t for x in b]
        sub = {"B": F["self_ty"]}
        opts = dict(subst=sub, mode="ring", field=fld)
        refs = False
        na = [x.t.p for x in a]
        nb = [x.t.p for x in b]
        if meth in ("add", "sub", "mul"):
            args = [ext_struct(a, deg), ext_struct(b, deg)]
            exp = {"add": [x + y for x, y in zip(A, B)], "sub": [x - y for x, y in zip(A, B)], "mul": schoolbook(A, B, red)}[meth]
            names = na + nb
            py = {"add": lambda v: [(x + y) % M for x, y in zip(v[:deg], v[deg:])], "sub": lambda v: [(x - y) % M for x, y in zip(v[:deg], v[deg:])],
                  "mul": lambda v: py_schoolbook(v[:deg], v[deg:], red, M)}[meth]
        elif meth in ("neg", "double", "square"):
            args = [ext_struct(a, deg)]
            exp = {"neg": [-x for x in A], "double": [2 * x for x in A], "square": schoolbook(A, A, red)}[meth]
            names = na
            py = {"neg": lambda v: [(-x) % M for x in v], "double": lambda v: [2 * x % M for x in v], "square": lambda v: py_schoolbook(v, v, red, M)}[meth]
        elif meth == "mul_base":
            args = [ext_struct(a, deg), b[0]]
            exp = [x * B[0] for x in A]
            names = na + nb[:1]
            py = lambda v: [x * v[deg] % M for x in v[:deg]]
        elif meth == "conjugate":
            args = [ext_struct(a, deg)]
            refs = True
            names = na
            py = None
            fr = find(prog, fld, "ExtensibleField", "frobenius", targs=str(deg))
            e0, r0 = run(prog, fr, [arr(a)], mode="ring", field=fld)
            exp = items(r0)
        else:
            args = [b[0]]
            exp = [B[0]] + [intc(0)] * (deg - 1)
            names = nb[:1]
            py = lambda v: [v[0] % M] + [0] * (deg - 1)
        if refs:
            ex = X.Executor(prog, mode="ring", field=fld)
            frm = X.Frame(X.Fn("<harness>", [], "()", "verif"), {"_1": args[0]})
            st = X.State([frm], ())
            st, r = ex._invoke(st, prog.fns[name], [X.Ref(0, "_1", ())], sub, [])
        else:
            ex, r = run(prog, name, args, **opts)
        got = items(r)
        qs = [identity_query("identity", got, exp)]
        if meth == "from_base":
            # the embedding is a ring homomorphism w.r.t. the wrapper's own mul / add
            mulw = prog.find(None, "Mul", "mul", type_=wty)
            e1, p1 = run(prog, name, [a[0]], **opts)
            e2, p2 = run(prog, mulw, [p1, r], **opts)
            qs.append(identity_query("embedding_multiplicative", items(p2), [A[0] * B[0]] + [intc(0)] * (deg - 1)))
        nontrivial = [o for o in ex.obligations if S.Implies(S.And(*o[0]), o[1]) is not S.TRUE]
        if nontrivial:
            raise NotEncodable("unexpected non-trivial panic condition in ring mode: " + nontrivial[0][2])
        pfx = "quad_" if deg == 2 else "cube_"
        val = validation(F, deg, meth, names, got, prefix=pfx)
        lift = mismatch_lift(F, deg, meth, names, py, f"{fld}::{pfx}{meth}", prefix=pfx) if py else None
        return Built(qs, short_fns(ex) + [f"abstracted: {x}" for x in sorted(set(ex.abstracted))], [val], lift,
                     note=f"generic wrapper instantiated at B := {F['self_ty']}")
    return Obligation(f"c08_{fld}_{'quad' if deg == 2 else 'cube'}_{meth}", "C08",
                      f"{'QuadExtension' if deg == 2 else 'CubeExtension'}<{fld}>::{meth} (public wrapper, real generic MIR at B := {fld}) equals the "
                      f"polynomial operation modulo {POLY[(fld, deg)]} over Z", "all operands (unbounded integers)", build)


def obligations(tier):
    obs = []
    for fld, deg in (("f64", 2), ("f64", 3), ("f62", 2), ("f62", 3), ("f128", 2)):
        for meth in ("mul", "square", "mul_base"):
            obs.append(ob_trait(fld, deg, meth))
        obs.append(ob_quad_frobenius(fld) if deg == 2 else ob_cubic_frobenius(fld))
        if deg == 2:
            obs.append(ob_quad_frobenius_concrete(fld))
        for meth in ("add", "sub", "neg", "double", "mul", "square", "mul_base", "conjugate", "from_base"):
            obs.append(ob_wrapper(fld, deg, meth))
    return obs
