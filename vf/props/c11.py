"""C11 (MDS part) -- the frequency-domain MDS fast path of the Rescue hashers equals the circulant matrix product.

Engine M, exact mode, on the crypto crate's MIR (callees fft4_real / ifft4_real_unreduced / field ops from the math dump):
  * mds_multiply_freq (12x12 and 8x8): for all limbs in [0, 2^32): no i64/u64 overflow assertion is reachable and the
    result equals  sum_j MDS[i][j] * s_j  as exact integers, MDS being the repository's PUBLISHED matrix constant
    (Rp64_256::MDS / RpJive64_256::MDS, evaluated from its own MIR body), also checked to be the documented circulant;
  * mds_multiply (the whole function on 12 / 8 field elements, loops unrolled by concrete execution): the result denotes
    the right residue (exact integer statement) and is canonical.
"""
from ..mirsmt import terms as S
from ..mirsmt import translate as X
from ..mirsmt.lib import (F64, SPECIAL, run, nopanic, short_fns, require_trivial, Query, Validation, Replay, Built, Obligation, NotEncodable)
from ..mirsmt.terms import And, Or, Eq, nat, intc, bvc, ult
from ..mirsmt import runner as R

ASSUMPTIONS = [
    "C11/MDS: the reference matrix is the repository's own public constant (Rp64_256::MDS, RpJive64_256::MDS), read by executing the constant's MIR body "
    "and converting with as_int; it is additionally checked to be the circulant of the documented first row",
    "mds_multiply / mds_multiply_freq are pub(crate): natively they are exercised by compiling the repository's current source files "
    "crypto/src/hash/mds/*.rs into the replay binary with #[path] (same source text, different crate); the public route is Rp64_256::apply_round / "
    "RpJive64_256::apply_round, used to lift counterexamples (pre-image under the S-box computed with the public exp)",
    "state elements are internal (Montgomery) values; the Montgomery map is linear, so a linear identity on internal values is the same identity on residues",
    "mds_multiply (pub(crate)) can return a NON-canonical internal value (>= M): its final reduction is the one of f64 mul_small (C07 finding). "
    "c11_mds*_multiply_canonical therefore comes back sat at the kernel level and is reported inconclusive unless a public-level witness through "
    "apply_round is found; c11_f64_add_heals_noncanonical + c11_*_ark_bound show that the add_constants step that follows every mds_multiply in "
    "apply_round restores canonicity for the published round constants (composition on paper: apply_mds is only called from apply_round)",
    "only the MDS fast path is covered by Engine M: S-boxes are C07 (exp7 chain) / outside, the sponge encoding and the byte hashers are Engine K obligations, "
    "Blake3/SHA3 are trusted external crates",
]

M = F64["M"]
W = 2 ** 64
ROW = {12: [7, 23, 8, 26, 13, 10, 9, 7, 6, 22, 21, 8], 8: [23, 8, 13, 10, 7, 6, 21, 8]}
MODS = {12: ("mds_f64_12x12", "rp64_256::MDS", "mds12", "rp64"), 8: ("mds_f64_8x8", "rp64_256_jive::MDS", "mds8", "rpjive")}


def matrix(prog, n):
    """the published MDS constant as canonical integers (translator-evaluated from the const's MIR body)"""
    ex = X.Executor(prog)
    v = ex.eval_const(MODS[n][1], "crypto")
    if not (isinstance(v, X.Agg) and len(v.items) == n):
        raise NotEncodable("MDS constant has an unexpected shape")
    Ri = pow(W, -1, M)
    out = []
    for row in v.items:
        r = []
        for e in row.items:
            t = X.inner(e)
            if not S.isconst(t):
                raise NotEncodable("MDS entry is not concrete")
            r.append(t.p * Ri % M)
        out.append(r)
    require_trivial(ex, MODS[n][1])
    return out, ex


def ob_circulant(n):
    def build(prog):
        mat, ex = matrix(prog, n)
        row = ROW[n]
        parts, locate = [], []
        for i in range(n):
            for j in range(n):
                t = S.raw("eq", [intc(mat[i][j]), intc(row[(j - i) % n])], S.BOOL)
                parts.append(t)
                locate.append((f"entry_{i}_{j}", t))
        return Built([Query("entries", [], S.raw("and", parts, S.BOOL), {}, encodings=("int",), locate=locate)], short_fns(ex) + [MODS[n][1]], [], None,
                     note="constant-only; matrix read from the MIR body of the public constant")
    return Obligation(f"c11_mds{n}_constant_is_circulant", "C11",
                      f"the published {n}x{n} MDS constant is the circulant matrix with the documented first row {ROW[n]} (MDS[i][j] = row[(j-i) mod {n}])",
                      "constant-only", build)


def ob_freq(n):
    mod, _, natp, _ = MODS[n]

    def build(prog):
        mat, ex0 = matrix(prog, n)
        s = [X.sym(f"s{i}", "u64") for i in range(n)]
        ex, r = run(prog, f"{mod}::mds_multiply_freq", [X.Agg(s, "array")], crate="crypto")
        if not (isinstance(r, X.Agg) and len(r.items) == n):
            raise NotEncodable("unexpected result shape")
        bounds = {f"s{i}": (0, 2 ** 32 - 1) for i in range(n)}
        parts, locate = [], []
        for i in range(n):
            exp = intc(0)
            for j in range(n):
                exp = exp + nat(s[j].t) * mat[i][j]
            t = Eq(nat(r.items[i].t), exp)
            parts.append(t)
            locate.append((f"row{i}", t))
        qs = [Query("circulant_product", [], And(*parts), bounds, locate=locate)]
        q2 = nopanic(ex, [], bounds)
        if q2:
            qs.append(q2)
        names = [f"s{i}" for i in range(n)]
        val = Validation(f"{natp} freq", names, [x.t for x in r.items], bounds, special=[0, 1, 2 ** 32 - 1, 2 ** 31, 2 ** 16], n=120)

        def lift(q, env):
            vals = [env[nm] for nm in names]
            if q.name == "nopanic":
                return Replay([f"{natp} freq " + " ".join(map(str, vals))], {"kind": "panic"}, f"{mod}::mds_multiply_freq/overflow",
                              "an i64/u64 overflow assertion of mds_multiply_freq fires (dev profile)", profile="debug")
            want = [sum(mat[i][j] * vals[j] for j in range(n)) for i in range(n)]
            exp = {"kind": "any", "of": [{"kind": "tok_ne", "index": i, "value": w % W} for i, w in enumerate(want)]}
            return Replay([f"{natp} freq " + " ".join(map(str, vals))], exp, f"{mod}::mds_multiply_freq/product",
                          "mds_multiply_freq differs from the circulant matrix-vector product")
        return Built(qs, short_fns(ex), [val], lift, note=f"{len(ex.obligations)} overflow/shift/index assertions collected")
    return Obligation(f"c11_mds{n}_freq", "C11",
                      f"mds_multiply_freq ({n}x{n}): for all limbs in [0,2^32): result_i = sum_j MDS[i][j]*s_j exactly (< 2^64), and no i64/u64 overflow, "
                      "shift or index assertion in fft4_real / block1-3 / ifft4_real_unreduced is reachable",
                      f"all {n} limbs in [0, 2^32) (the only range mds_multiply passes), full state space", build)


def _multiply_terms(prog, n):
    mod = MODS[n][0]
    xs = [X.sym(f"x{i}", "u64") for i in range(n)]
    state = X.Agg([X.elem(x) for x in xs], "array")
    ex, _ = run(prog, f"{mod}::mds_multiply", [state], refs=True, crate="crypto")
    out = ex.final_env["_1"]
    if not (isinstance(out, X.Agg) and len(out.items) == n):
        raise NotEncodable("unexpected state shape after mds_multiply")
    return ex, xs, [X.inner(e) for e in out.items]


def ob_multiply(n, which):
    mod, _, natp, rp = MODS[n]

    def build(prog):
        mat, ex0 = matrix(prog, n)
        ex, xs, outs = _multiply_terms(prog, n)
        names = [f"x{i}" for i in range(n)]
        bounds = {nm: (0, M - 1) for nm in names}
        parts, locate = [], []
        for i in range(n):
            if which == "canonical":
                t = ult(outs[i], bvc(64, M))
            else:
                Sv = intc(0)
                for j in range(n):
                    Sv = Sv + nat(xs[j].t) * mat[i][j]
                hi = Sv // W
                Rv = nat(outs[i])
                t = Or(Eq(Rv + hi * M, Sv), Eq(Rv + (hi + 1) * M, Sv))
            parts.append(t)
            locate.append((f"row{i}", t))
        qs = [Query(which, [], And(*parts), bounds, locate=locate)]
        if which == "value":
            q2 = nopanic(ex, [], bounds)
            if q2:
                qs.append(q2)
        val = Validation(f"{natp} mul", names, outs, bounds, special=SPECIAL, n=120)

        def lift(q, env):
            vals = [env[nm] for nm in names]
            kline = f"{natp} mul " + " ".join(map(str, vals))
            if q.name == "nopanic":
                return Replay([kline], {"kind": "panic"}, f"{mod}::mds_multiply/overflow", "an overflow assertion of mds_multiply fires (dev profile)", profile="debug")
            if which == "value":
                ref = f"{natp} mul_ref " + " ".join(map(str, vals))
                return Replay([kline, ref], {"kind": "lines_differ_mod", "line": 0, "other": 1, "mod": M}, f"{mod}::mds_multiply/residue",
                              "mds_multiply differs (as residues) from the product with the public MDS constant")
            # canonical: (1) confirm on the kernel, (2) look for a public-level witness through apply_round
            kans = R.native([kline])[0]
            kernel_bad = kans[0] == "ok" and any(int(t) >= M for t in kans[1:])
            if not kernel_bad:
                return Replay([kline], {"kind": "any", "of": [{"kind": "tok_ge", "index": i, "value": M} for i in range(n)]}, f"{mod}::mds_multiply/result_noncanonical",
                              "mds_multiply returns an internal value >= M")
            rounds = range(7)
            lines = [f"{rp} round_check " + " ".join(map(str, vals)) + f" {rd}" for rd in rounds]
            ans = R.native(lines)
            for ln, a in zip(lines, ans):
                if a[0] == "ok" and int(a[1]) > 0:
                    return Replay([kline, ln],
                                  {"kind": "all", "of": [{"kind": "any", "of": [{"kind": "tok_ge", "line": 0, "index": i, "value": M} for i in range(n)]},
                                                         {"kind": "tok_ge", "line": 1, "index": 0, "value": 1}]},
                                  f"{mod}::mds_multiply/result_noncanonical",
                                  "mds_multiply returns an internal value >= M (same reduction as f64 mul_small); through the PUBLIC apply_round the state "
                                  "then differs under == from the reference computed with public field operations")
            pos = [i for i, t in enumerate(kans[1:]) if int(t) >= M]
            raise R.NotLiftable(f"KERNEL-LEVEL ONLY: {mod}::mds_multiply natively returns internal values >= M at position(s) {pos} for this state "
                                "(reproduced with the #[path]-compiled kernel), but the PUBLIC apply_round output equals the reference under == on all 7 rounds "
                                "(the add_constants that follows restores canonicity, cf. c11_f64_add_heals_noncanonical)")
        return Built(qs, short_fns(ex), [val], lift, note=f"loops `for r in 0..{n}` unrolled by concrete execution; {len(ex.obligations)} assertions collected")
    if which == "canonical":
        return Obligation(f"c11_mds{n}_multiply_canonical", "C11",
                          f"mds_multiply ({n}x{n}): every returned internal value is canonical (< M) for all canonical states",
                          f"all {n} state elements < M, full width", build)
    return Obligation(f"c11_mds{n}_multiply_value", "C11",
                      f"mds_multiply ({n}x{n}): result_r + k*M = sum_j MDS[r][j]*x_j exactly (k in {{hi, hi+1}}): the right residue for every canonical state; "
                      "the low/high split keeps every limb < 2^32 and no overflow/shift/index assertion is reachable (incl. the u128 recombination)",
                      f"all {n} state elements < M, full width", build)


def ob_multiply_value(n, lemma):
    """mds_multiply = split into 32-bit limbs, two calls of the (lemma) frequency-domain product, recombination + reduction"""
    mod, _, natp, rp = MODS[n]

    def build(prog):
        mat, ex0 = matrix(prog, n)
        calls = []

        def summary(ex, st, args):
            k = len(calls)
            outs = [X.Sc(S.var(f"F{k}_{i}", S.BV(64)), "u64") for i in range(n)]
            calls.append((args[0], outs))
            ex.abstracted.append(f"{mod}::mds_multiply_freq (call {k})")
            return X.Agg(outs, "array")
        xs = [X.sym(f"x{i}", "u64") for i in range(n)]
        state = X.Agg([X.elem(x) for x in xs], "array")
        ex, _ = run(prog, f"{mod}::mds_multiply", [state], refs=True, crate="crypto", summaries={f"{mod}::mds_multiply_freq": summary})
        out = ex.final_env["_1"]
        if len(calls) != 2 or not (isinstance(out, X.Agg) and len(out.items) == n):
            raise NotEncodable(f"mds_multiply: expected two calls of mds_multiply_freq, saw {len(calls)}")
        (ah, Hs), (al, Ls) = calls
        names = [f"x{i}" for i in range(n)]
        xb = {nm: (0, M - 1) for nm in names}
        parts, locate = [], []
        for j in range(n):
            h, l = ah.items[j].t, al.items[j].t
            t = And(ult(h, bvc(64, 2 ** 32)), ult(l, bvc(64, 2 ** 32)), Eq(nat(h) * 2 ** 32 + nat(l), nat(xs[j].t)))
            parts.append(t)
            locate.append((f"limb{j}", t))
        q1 = Query("call_contract", [], And(*parts), xb, locate=locate)
        fb = dict(xb)
        for i in range(n):
            top = sum(mat[i]) * (2 ** 32 - 1)
            fb[f"F0_{i}"] = (0, top)
            fb[f"F1_{i}"] = (0, top)
        parts, locate = [], []
        for i in range(n):
            Sv = nat(Ls[i].t) + nat(Hs[i].t) * 2 ** 32
            hi = Sv // W
            Rv = nat(X.inner(out.items[i]))
            t = Or(Eq(Rv + hi * M, Sv), Eq(Rv + (hi + 1) * M, Sv))
            parts.append(t)
            locate.append((f"row{i}", t))
        q2 = Query("recombination", [], And(*parts), fb, locate=locate)
        qs = [q1, q2]
        q3 = nopanic(ex, [], fb)
        if q3:
            qs.append(q3)
        exx, xsx, outsx = _multiply_terms(prog, n)
        val = Validation(f"{natp} mul", names, outsx, xb, special=SPECIAL, n=120)

        def lift(q, env):
            vals = [env.get(nm, 0) for nm in names]
            kline = f"{natp} mul " + " ".join(map(str, vals))
            if q.name == "nopanic":
                return Replay([kline], {"kind": "panic"}, f"{mod}::mds_multiply/overflow", "an overflow assertion of mds_multiply fires (dev profile)", profile="debug")
            if q.name == "call_contract":
                ref = f"{natp} mul_ref " + " ".join(map(str, vals))
                return Replay([kline, ref], {"kind": "lines_differ_mod", "line": 0, "other": 1, "mod": M}, f"{mod}::mds_multiply/residue",
                              "mds_multiply differs (as residues) from the product with the public MDS constant")
            return None
        def relift():
            # a model of the abstracted (lemma-level) query names frequency-domain results, not a state: ask the un-abstracted
            # question "some row of mds_multiply(x) is not congruent to the matrix-vector product" for a canonical state x
            exd, xsd, outsd = _multiply_terms(prog, n)
            parts, locate = [], []
            for i in range(n):
                D = intc(0)
                for j in range(n):
                    D = D + nat(xsd[j].t) * mat[i][j]
                Rv = nat(outsd[i])
                t = Or(*[Eq(Rv + k * M, D) for k in range(0, sum(mat[i]) + 2)])
                parts.append(t)
                locate.append((f"row{i}", t))
            qd = Query("direct_value", [], And(*parts), xb, locate=locate, timeout=120)
            # cheaper search spaces first: states with a single non-zero position (the other positions fixed to zero by assumptions)
            singles = [Query(f"direct_value_single{j}", [Eq(nat(xsd[k].t), intc(0)) for k in range(n) if k != j], And(*parts), xb,
                             locate=locate, timeout=120) for j in range(n)]

            def lift2(q, env):
                vals = [env.get(nm, 0) for nm in names]
                return Replay([f"{natp} mul " + " ".join(map(str, vals)), f"{natp} mul_ref " + " ".join(map(str, vals))],
                              {"kind": "lines_differ_mod", "line": 0, "other": 1, "mod": M}, f"{mod}::mds_multiply/residue",
                              "mds_multiply differs (as residues) from the product with the public MDS constant for a canonical state "
                              "(every canonical state reaches mds_multiply through apply_round: the S-box is a bijection)")
            return Built(singles + [qd], short_fns(exd), [], lift2, note="un-abstracted twin used only to lift a lemma-level counterexample")
        return Built(qs, short_fns(ex) + [f"abstracted: {x}" for x in ex.abstracted], [val], lift, relift=relift,
                     note="the two mds_multiply_freq calls are replaced by their lemma (fresh results bounded by rowsum*(2^32-1)); by linearity "
                          "L_r + 2^32*H_r = sum_j MDS[r][j]*x_j (paper step)")
    return Obligation(f"c11_mds{n}_multiply_value", "C11",
                      f"mds_multiply ({n}x{n}): the state is split exactly into limbs < 2^32 (x = h*2^32 + l) handed to mds_multiply_freq, and "
                      "result_r + k*M = L_r + 2^32*H_r exactly (k in {hi, hi+1}) for the two frequency-domain results: with the lemma the right residue of "
                      "sum_j MDS[r][j]*x_j for every canonical state; no overflow/shift/index assertion reachable",
                      f"all {n} state elements < M, full width; frequency-domain results arbitrary in their range", build, deps=[lemma])


def ob_add_heals():
    from ..mirsmt.lib import find
    from ..mirsmt.terms import Lt, Le
    KMAX = M - 2 ** 32 + 1

    def build(prog):
        a, k = X.sym("a", "u64"), X.sym("k", "u64")
        ex, r = run(prog, find(prog, "f64", "Add", "add"), [X.elem(a), X.elem(k)])
        rt = X.inner(r)
        A, K, Rv = nat(a.t), nat(k.t), nat(rt)
        bounds = {"k": (0, KMAX)}
        goal = And(ult(rt, bvc(64, M)), Or(Eq(Rv, A + K), Eq(Rv + M, A + K), Eq(Rv + 2 * M, A + K)))
        qs = [Query("heals", [], goal, bounds)]
        q2 = nopanic(ex, [], bounds)
        if q2:
            qs.append(q2)
        val = Validation("f64 add", ["a", "k"], [rt], {"a": (0, W - 1), "k": (0, KMAX)}, special=SPECIAL)
        lift = lambda q, env: Replay([f"f64 add {env['a']} {env['k']}"], {"kind": "any", "of": [{"kind": "tok_ge", "index": 0, "value": M},
                                     {"kind": "tok_mod_ne", "index": 0, "value": (env["a"] + env["k"]) % M, "mod": M}]}, "f64::add/noncanonical_lhs",
                                     "f64 add with a non-canonical left operand and a small right operand is not canonical / not the right residue")
        return Built(qs, short_fns(ex), [val], lift)
    return Obligation("c11_f64_add_heals_noncanonical", "C11",
                      "f64 add(a, k) for EVERY u64 a (also non-canonical, as mds_multiply may return) and every k <= M-2^32+1: canonical and = a+k mod M. "
                      "With c11_*_ark_bound this shows that add_constants, the only consumer of mds_multiply's output in apply_round, restores canonicity",
                      "a: u64 full width, k <= M - 2^32 + 1", build), KMAX


def ob_ark_bound(which, kmax):
    path = {"rp64": "rp64_256", "rpjive": "rp64_256_jive"}[which]

    def build(prog):
        ex = X.Executor(prog)
        parts, locate = [], []
        cnt = 0
        for nm in ("ARK1", "ARK2"):
            v = ex.eval_const(f"{path}::{nm}", "crypto")
            if not isinstance(v, X.Agg):
                raise NotEncodable("ARK constant shape")
            for ri, row in enumerate(v.items):
                for ci, e in enumerate(row.items):
                    t = X.inner(e)
                    if not S.isconst(t):
                        raise NotEncodable("ARK entry not concrete")
                    c = S.raw("ile", [intc(t.p), intc(kmax)], S.BOOL)
                    parts.append(c)
                    locate.append((f"{nm}[{ri}][{ci}]", c))
                    cnt += 1
        require_trivial(ex, path + "::ARK")
        return Built([Query("entries", [], S.raw("and", parts, S.BOOL), {}, encodings=("int",), locate=locate)], [f"{path}::ARK1", f"{path}::ARK2"] + short_fns(ex), [], None,
                     note=f"{cnt} round constants (internal values) read from the constants' MIR bodies")
    return Obligation(f"c11_{which}_ark_bound", "C11",
                      f"every round constant of {path} (internal value) is <= M - 2^32 + 1, the range in which add restores canonicity of mds_multiply's output",
                      "constant-only", build)


def obligations(tier):
    obs = []
    heal, kmax = ob_add_heals()
    for n in (12, 8):
        fq = ob_freq(n)
        canon = ob_multiply(n, "canonical")
        canon.required = False     # known to fail at the pub(crate) level (see ASSUMPTIONS); public-level consequence is what the heal obligations decide
        obs += [ob_circulant(n), fq, ob_multiply_value(n, fq), canon]
        if tier == "thorough":
            direct = ob_multiply(n, "value")
            direct.name += "_direct"
            direct.required = False
            obs.append(direct)
    obs += [heal, ob_ark_bound("rp64", kmax), ob_ark_bound("rpjive", kmax)]
    return obs
