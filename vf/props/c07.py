"""C07 -- base-field arithmetic equals integer arithmetic modulo the prime (Engine M obligations).

Every obligation translates the repository's CURRENT MIR (math crate) and asks the z3/z3-new/cvc5 x {BV, Int}
portfolio for a counterexample over the full operand width.  Elements travel as their internal representation:
  f64  : Montgomery value x, invariant x < M,   value(x) = x * 2^-64 mod M
  f62  : Montgomery value x, invariant x < 2M,  value(x) = x * 2^-64 mod M
  f128 : canonical value x,  invariant x < M
"""
from ..mirsmt import terms as S
from ..mirsmt import translate as X
from ..mirsmt.lib import (F64, F62, F128, SPECIAL, find, run, nopanic, short_fns, scalar_const, require_trivial, Query, Validation, Replay, Built,
                          Obligation, NotEncodable)
from ..mirsmt.terms import And, Or, Not, Eq, Ne, Implies, Ite, nat, intc, bvc, ult, ule, Lt, Le

ASSUMPTIONS = [
    "Engine M: rustc's -Zunpretty=mir dump (dev profile, overflow-checks=on, debug-assertions=off) is the semantics that is encoded; "
    "release builds differ only where an overflow assertion could fire, and every such assertion in the encoded bodies is itself an obligation",
    "Montgomery map: value(x) = x * 2^-64 mod M. Obligations are stated on internal representations as exact integer identities "
    "(e.g. r*2^64 + q*M = x + c*M*2^64); the step from such an identity to 'value(r) = value(a)*value(b)' only uses that 2^64 is invertible "
    "modulo the odd modulus M (paper step, not a solver result)",
    "widening products a*b of two symbolic operands are replaced by a fresh variable P ranging over [0, max(a)*max(b)] (never bit-blasted "
    "against a second copy); `P = a*b` is exact by Rust semantics because both operands are zero-extensions whose widths add up to the product width",
    "every internal representation inside the documented invariant range is treated as reachable (injected natively with the public "
    "BaseElement::from_mont for f64 and the public unsafe FieldElement::bytes_as_elements for f62/f128)",
    "f64 inv / exp7: exponent abstraction (element -> exponent, mul -> +, square -> *2) of the real addition chain; relies on the mul/square "
    "obligations of this property; that x^(M-2) is the inverse is Fermat's little theorem (trusted), as is the primality of the three moduli "
    "(checked here only by a Miller-Rabin test in python)",
    "constants: values are obtained by executing the constants' own MIR bodies (e.g. GENERATOR = new(7)) in the translator and cross-checked "
    "against the native binary; the defining equations (orders of the generator / root of unity) are evaluated by the solver on constant terms; "
    "the factorisations of M-1 used for the generator test are hard-coded and re-multiplied, their prime factors Miller-Rabin tested in python",
    "NOT covered by Engine M: loops with data-dependent trip counts -- f62::inv and f128::inv (binary GCD), f62 exp / FieldElement::exp_vartime, "
    "f64 exp (64 iterations of square+mul; outside the portfolio's reach as one term). f62 `inv` does not terminate on the representation M of "
    "zero ((ONE + (-ONE)).inv()) -- a loop, out of Engine M's reach (Engine K / native replay territory)",
    "Serializable/Deserializable (ByteWriter/ByteReader generics), AsBytes and slice reinterpretation are not encoded here (C12 / Engine K)",
]

M64, M62, M128 = F64["M"], F62["M"], F128["M"]
W = 2 ** 64


def _v(name, ty):
    return X.sym(name, ty)


def _functional_replay(prefix, args, expected, M, what, where, mod=None):
    line = prefix + " " + " ".join(str(a) for a in args)
    if mod:
        exp = {"kind": "any", "of": [{"kind": "tok_mod_ne", "index": 0, "value": expected % mod, "mod": mod},
                                     {"kind": "tok_ge", "index": 0, "value": 2 * mod}]}
    else:
        exp = {"kind": "any", "of": [{"kind": "tok_ne", "index": 0, "value": expected}, {"kind": "tok_ge", "index": 0, "value": M}]}
    return Replay([line], exp, where, what)


def _panic_replay(prefix, args, where):
    return Replay([prefix + " " + " ".join(str(a) for a in args)], {"kind": "panic"}, where,
                  "overflow/shift/index assertion of the dev-profile build fires", profile="debug")


# =================================================================================================
# generic "direct" obligation: operands are internal representations, spec is an integer formula
def direct(name, F, desc, lookup, argnames, spec, pyspec, native, refs=False, argtys=None, ranges=None, required=True,
           out="elem", timeout=None, lazy=False):
    """lookup(prog)-> MIR name; spec(ints..., result_int, terms...) -> bool term; pyspec(values...) -> expected value"""
    fld = F["name"]
    argtys = argtys or [F["ty"]] * len(argnames)
    rng = ranges or {a: (0, F["rep"] - 1) for a in argnames}

    def build(prog):
        syms = [_v(a, t) for a, t in zip(argnames, argtys)]
        args = [X.elem(s) for s in syms]
        fname = lookup(prog)
        ex, r = run(prog, fname, args, refs=refs)
        rt = r.t if isinstance(r, X.Sc) else X.inner(r)
        ints = [nat(s.t) if s.ty != "bool" else s.t for s in syms]
        goal = spec(*ints, nat(rt) if rt.sort != S.BOOL else rt, *[s.t for s in syms], rt)
        qs = [Query("functional", [], goal, rng)]
        q2 = nopanic(ex, [], rng)
        if q2:
            qs.append(q2)
        val = Validation(f"{fld} {native}", argnames, [rt], rng, special=SPECIAL)

        def lift(q, env):
            vals = [env[a] for a in argnames]
            if q.name == "nopanic":
                return _panic_replay(f"{fld} {native}", vals, f"{fld}::{native}/panic")
            return _functional_replay(f"{fld} {native}", vals, pyspec(*vals), F["M"], f"{fld} {native}{tuple(vals)} disagrees with the specification",
                                      f"{fld}::{native}/functional", mod=F["M"] if lazy else None)
        return Built(qs, short_fns(ex), [val], lift)
    return Obligation(name, "C07", desc, "all operands inside the representation invariant, full width; no bound", build, required=required, timeout=timeout)


# =================================================================================================
# f64
def gold_witness(r_int, x_int, xl):
    """Goldilocks Montgomery identity: r*2^64 + a*M - x in {0, M*2^64} with a = xl * M^-1 mod 2^64 (M^-1 = 2^32+1 mod 2^64)"""
    ap = nat(S.bvmul(xl, bvc(64, 2 ** 32 + 1)))
    d = r_int * W + ap * W - ap * 2 ** 32 + ap - x_int
    return Or(Eq(d, intc(0)), Eq(d, intc(M64 * W)))


def ob_f64_mont_red_cst():
    def build(prog):
        x = _v("x", "u128")
        ex, r = run(prog, "mont_red_cst", [x])
        xl, xh = S.trunc(x.t, 64), S.extract(x.t, 127, 64)
        goal = And(ult(r.t, bvc(64, M64)), gold_witness(nat(r.t), nat(x.t), xl))
        bounds = {"x": (0, M64 * W - 1)}
        qs = [Query("identity", [], goal, bounds)]
        q2 = nopanic(ex, [], bounds)
        if q2:
            qs.append(q2)
        return Built(qs, short_fns(ex), [], None, note="private kernel: translator validated through f64 mul/new which inline it")
    return Obligation("c07_f64_mont_red_cst", "C07",
                      "mont_red_cst(x): r < M and r*2^64 + q*M = x + c*M*2^64 (c in {0,1}) for every x < M*2^64, i.e. r = x*2^-64 mod M, canonical",
                      "x: u128, x < M*2^64 (full range of the kernel's callers)", build)


def ob_f64_mul(square=False, lemma=None):
    nm = "square" if square else "mul"

    def make(prog, abstract):
        a, b = _v("a", "u64"), _v("b", "u64")
        if square:
            ex, r = run(prog, "FieldElement::square", [X.elem(a)], subst={"Self": F64["self_ty"]}, abstract_products=abstract, watch=["mont_red_cst"])
        else:
            ex, r = run(prog, find(prog, "f64", "Mul", "mul"), [X.elem(a), X.elem(b)], abstract_products=abstract, watch=["mont_red_cst"])
        return ex, X.inner(r), a, b

    def build(prog):
        ex, rt, a, b = make(prog, True)
        if len(ex.products) != 1:
            raise NotEncodable(f"expected exactly one widening product in f64 {nm}, found {len(ex.products)}")
        pa, pb, P, _ = ex.products[0]
        want = {a.t.id} if square else {a.t.id, b.t.id}
        if {pa.args[0].id, pb.args[0].id} != want:
            raise NotEncodable("the abstracted product is not the product of the operands")
        if len(ex.calls) != 1:
            raise NotEncodable(f"f64 {nm}: expected one call of mont_red_cst")
        _, cargs, cret, _pc = ex.calls[0]
        bounds = {P.p: (0, (M64 - 1) ** 2)}
        # the kernel is called on exactly the product, the product meets the kernel's precondition, the result is the kernel's result
        goal = And(Eq(cargs[0].t, P), Lt(nat(P), intc(M64 * W)), ult(S.extract(P, 127, 64), bvc(64, M64)), Eq(cret.t, rt))
        qs = [Query("call_contract", [], goal, bounds)]
        q2 = nopanic(ex, [], bounds)
        if q2:
            qs.append(q2)
        exx, rtx, ax, bx = make(prog, False)
        names = ["a"] if square else ["a", "b"]
        rng = {n: (0, M64 - 1) for n in names}
        val = Validation(f"f64 {nm}", names, [rtx], rng, special=SPECIAL)
        return Built(qs, short_fns(ex), [val], None, None,
                     note=f"product abstracted: P in [0,(M-1)^2] stands for {'a*a' if square else 'a*b'}; conclusion r < M and r*2^64 = P (mod M) "
                          "is the instance x := P of lemma c07_f64_mont_red_cst")
    return Obligation(f"c07_f64_{nm}", "C07",
                      f"f64 {nm}: the result is mont_red_cst(P) for the exact product P = {'a*a' if square else 'a*b'} of canonical internal values, P < M*2^64 "
                      "(kernel precondition); with the kernel lemma: r < M and r*2^64 = P (mod M), i.e. value(r) = value(a)*value(b); overflow assertions unreachable",
                      "a, b < M full width; P <= (M-1)^2 arbitrary", build, deps=[lemma] if lemma else [])


def ob_f64_mul_direct(square=False):
    """the same statement as ONE query without the lemma (attempt)"""
    nm = "square" if square else "mul"

    def build(prog):
        a, b = _v("a", "u64"), _v("b", "u64")
        if square:
            ex, r = run(prog, "FieldElement::square", [X.elem(a)], subst={"Self": F64["self_ty"]}, abstract_products=True)
        else:
            ex, r = run(prog, find(prog, "f64", "Mul", "mul"), [X.elem(a), X.elem(b)], abstract_products=True)
        rt = X.inner(r)
        P = ex.products[0][2]
        bounds = {P.p: (0, (M64 - 1) ** 2)}
        goal = And(ult(rt, bvc(64, M64)), gold_witness(nat(rt), nat(P), S.trunc(P, 64)))
        return Built([Query("identity", [], goal, bounds)], short_fns(ex), [], None)
    return Obligation(f"c07_f64_{nm}_direct", "C07", f"f64 {nm}: r < M and r*2^64 + q*M = P + c*M*2^64 for every P <= (M-1)^2 as ONE query (attempt; the required "
                      f"obligation c07_f64_{nm} composes the kernel lemma instead)", "P <= (M-1)^2 arbitrary", build, required=False)


def ob_f64_new(lemma=None, direct_q=False):
    def build(prog):
        v = _v("v", "u64")
        ex, r = run(prog, find(prog, "f64", None, "new"), [v], watch=["mont_red_cst"])
        rt = X.inner(r)
        if len(ex.calls) != 1:
            raise NotEncodable("f64 new: expected one call of mont_red_cst")
        _, cargs, cret, cpc = ex.calls[0]
        x = cargs[0].t
        r2 = scalar_const(prog, "field::f64::R2")
        if direct_q:
            g2 = And(ult(rt, bvc(64, M64)), gold_witness(nat(rt), nat(v.t) * intc(r2), S.trunc(x, 64)))
            return Built([Query("identity", [], g2)], short_fns(ex), [], None)
        # the argument handed to the kernel is v*R2 exactly and meets the kernel's precondition; the result is the kernel's
        g1 = And(Eq(nat(x), nat(v.t) * intc(r2)), Lt(nat(x), intc(M64 * W)), ult(S.extract(x, 127, 64), bvc(64, M64)), Eq(cret.t, rt))
        qs = [Query("call_contract", [], g1)]
        q2 = nopanic(ex, [], {})
        if q2:
            qs.append(q2)
        val = Validation("f64 new", ["v"], [rt], {"v": (0, W - 1)}, special=SPECIAL)
        lift = lambda q, env: _functional_replay("f64 new", [env["v"]], env["v"] * W % M64, M64, "f64 new(v) is not v*2^64 mod M", "f64::new/functional")
        return Built(qs, short_fns(ex), [val], lift, note="conclusion r < M and r*2^64 = v*R2 (mod M) is the instance x := v*R2 of lemma c07_f64_mont_red_cst")
    if direct_q:
        return Obligation("c07_f64_new_direct", "C07", "f64 new(v): r < M and r*2^64 + q*M = v*R2 + c*M*2^64 as ONE query without the lemma (attempt)",
                          "v: u64 full width", build, required=False)
    return Obligation("c07_f64_new", "C07",
                      "f64 new(v) for every u64 v (also >= M): the result is mont_red_cst(v*R2), v*R2 < M*2^64 (kernel precondition); with the kernel lemma "
                      "r < M and r*2^64 = v*R2 (mod M); with R2 = 2^128 mod M (constants obligation) value(new(v)) = v mod M", "v: u64 full width", build,
                      deps=[lemma] if lemma else [])


def ob_f64_as_int(which):
    trait = None if which == "inherent" else "StarkField"

    def build(prog):
        a = _v("a", "u64")
        ex, r = run(prog, find(prog, "f64", trait, "as_int"), [X.elem(a)], refs=True)
        bounds = {"a": (0, W - 1)}
        goal = And(ult(r.t, bvc(64, M64)), gold_witness(nat(r.t), nat(a.t), a.t))
        qs = [Query("identity", [], goal, bounds)]
        q2 = nopanic(ex, [], bounds)
        if q2:
            qs.append(q2)
        nat_op = "as_int_inherent" if which == "inherent" else "as_int"
        val = Validation(f"f64 {nat_op}", ["a"], [r.t], bounds, special=SPECIAL)
        Ri = pow(W, -1, M64)
        lift = lambda q, env: _functional_replay(f"f64 {nat_op}", [env["a"]], env["a"] * Ri % M64, M64, "f64 as_int is not inner*2^-64 mod M", "f64::as_int/functional")
        return Built(qs, short_fns(ex), [val], lift)
    return Obligation(f"c07_f64_as_int_{which}", "C07",
                      f"f64 as_int ({which} impl, via mont_to_int): t < M and t*2^64 + q*M = x + c*M*2^64 for EVERY u64 internal value x "
                      "(canonical output even for non-canonical x)", "x: u64 full width", build)


def _f64_direct():
    M = M64
    obs = []
    obs.append(direct("c07_f64_add", F64, "f64 add: r < M and r = a+b or a+b-M (a, b < M)", lambda p: find(p, "f64", "Add", "add"), ["a", "b"],
                      lambda A, B, R, a, b, r: And(ult(r, bvc(64, M)), Eq(R, Ite(Le(intc(M), A + B), A + B - M, A + B))),
                      lambda a, b: (a + b) % M, "add"))
    obs.append(direct("c07_f64_sub", F64, "f64 sub: r < M and r = a-b or a-b+M (a, b < M)", lambda p: find(p, "f64", "Sub", "sub"), ["a", "b"],
                      lambda A, B, R, a, b, r: And(ult(r, bvc(64, M)), Eq(R, Ite(Lt(A, B), A - B + M, A - B))),
                      lambda a, b: (a - b) % M, "sub"))
    obs.append(direct("c07_f64_neg", F64, "f64 neg: r < M and r = 0 if a = 0 else M-a", lambda p: find(p, "f64", "Neg", "neg"), ["a"],
                      lambda A, R, a, r: And(ult(r, bvc(64, M)), Eq(R, Ite(Eq(A, intc(0)), intc(0), M - A))),
                      lambda a: (-a) % M, "neg"))
    obs.append(direct("c07_f64_double_value", F64, "f64 double: r = 2a or 2a-M as integers (right residue, whatever the representation)",
                      lambda p: find(p, "f64", "FieldElement", "double"), ["a"],
                      lambda A, R, a, r: Or(Eq(R, 2 * A), Eq(R + M, 2 * A)),
                      lambda a: (2 * a) % M, "double", lazy=True))
    return obs


def ob_f64_eq():
    def build(prog):
        a, b = _v("a", "u64"), _v("b", "u64")
        ex, r = run(prog, find(prog, "f64", "PartialEq", "eq"), [X.elem(a), X.elem(b)], refs=True)
        goal = Eq(r.t, Eq(a.t, b.t))
        qs = [Query("functional", [], goal)]
        q2 = nopanic(ex, [], {})
        if q2:
            qs.append(q2)
        rng = {"a": (0, W - 1), "b": (0, W - 1)}
        val = Validation("f64 eq", ["a", "b"], [r.t], rng, special=SPECIAL, fixed=[{"a": 5, "b": 5}, {"a": M64 - 1, "b": M64 - 1}, {"a": 0, "b": M64}])
        lift = lambda q, env: Replay([f"f64 eq {env['a']} {env['b']}"], {"kind": "tok_ne", "index": 0, "value": int(env["a"] == env["b"])},
                                     "f64::eq/functional", "f64 == disagrees with equality of internal values")
        return Built(qs, short_fns(ex), [val], lift)
    return Obligation("c07_f64_eq", "C07",
                      "f64 ==: equals(x,y) is exactly equality of the internal u64 values (all 2^128 pairs); on canonical values (< M) the "
                      "representation is unique, so == holds exactly when the residues agree (paper step); a non-canonical value therefore "
                      "compares unequal to its canonical twin -- see c07_f64_mul_small_canonical",
                      "a, b: u64 full width", build)


def ob_f64_mul_small_canonical():
    def build(prog):
        a, s = _v("a", "u64"), _v("s", "u32")
        ex, r = run(prog, find(prog, "f64", None, "mul_small"), [X.elem(a), s])
        rt = X.inner(r)
        bounds = {"a": (0, M64 - 1)}
        goal = ult(rt, bvc(64, M64))
        qs = [Query("canonical", [], goal, bounds)]
        q2 = nopanic(ex, [], bounds)
        if q2:
            qs.append(q2)
        val = Validation("f64 mul_small", ["a", "s"], [rt], {"a": (0, M64 - 1), "s": (0, 2 ** 32 - 1)}, special=SPECIAL,
                         fixed=[{"a": 5358187370688264268, "s": 7220281}, {"a": 1729382257849794556, "s": 2147483657}])

        def lift(q, env):
            if q.name == "nopanic":
                return _panic_replay("f64 mul_small", [env["a"], env["s"]], "f64::mul_small/panic")
            return Replay([f"f64 mul_small {env['a']} {env['s']}"],
                          {"kind": "all", "of": [{"kind": "tok_ge", "index": 0, "value": M64}, {"kind": "tok_eq", "index": 2, "value": 0}]},
                          "f64::mul_small/result_noncanonical",
                          "f64 mul_small returns an internal value >= M (documented invariant [0,M) broken); x.mul_small(s) != x * new(s) under == "
                          "although both denote the same residue")
        return Built(qs, short_fns(ex), [val], lift)
    return Obligation("c07_f64_mul_small_canonical", "C07",
                      "f64 mul_small(x, s): the returned internal value is canonical (< M) for every canonical x and every u32 s "
                      "(representation invariant; == compares internal values)",
                      "x < M, s: u32, full width; exact 64x32 multiplication", build)


def ob_f64_double_canonical():
    def build(prog):
        a = _v("a", "u64")
        ex, r = run(prog, find(prog, "f64", "FieldElement", "double"), [X.elem(a)])
        rt = X.inner(r)
        bounds = {"a": (0, M64 - 1)}
        qs = [Query("canonical", [], ult(rt, bvc(64, M64)), bounds)]
        q2 = nopanic(ex, [], bounds)
        if q2:
            qs.append(q2)
        val = Validation("f64 double", ["a"], [rt], bounds, special=SPECIAL, fixed=[{"a": 2 ** 63 - 1}, {"a": (M64 + 1) // 2}, {"a": 2 ** 63}])

        def lift(q, env):
            if q.name == "nopanic":
                return _panic_replay("f64 double", [env["a"]], "f64::double/panic")
            return Replay([f"f64 double {env['a']}"],
                          {"kind": "all", "of": [{"kind": "tok_ge", "index": 0, "value": M64}, {"kind": "tok_eq", "index": 1, "value": 0}]},
                          "f64::double/result_noncanonical",
                          "f64 double returns an internal value >= M (for M <= 2x < 2^64 no reduction happens); x.double() != x + x under == "
                          "although both denote the same residue")
        return Built(qs, short_fns(ex), [val], lift)
    return Obligation("c07_f64_double_canonical", "C07",
                      "f64 double(x): the returned internal value is canonical (< M) for every canonical x (representation invariant)",
                      "x < M full width", build)


def ob_f64_mul_small_value():
    def build(prog):
        a, s = _v("a", "u64"), _v("s", "u32")
        ex, r = run(prog, find(prog, "f64", None, "mul_small"), [X.elem(a), s], abstract_products=True)
        rt = X.inner(r)
        if len(ex.products) != 1:
            raise NotEncodable("mul_small: expected one widening product")
        pa, pb, P, _ = ex.products[0]
        if {pa.args[0].id, pb.args[0].id} != {a.t.id, s.t.id}:
            raise NotEncodable("mul_small: abstracted product is not inner*rhs")
        bounds = {P.p: (0, (M64 - 1) * (2 ** 32 - 1))}
        hi = nat(S.extract(P, 127, 64))
        R, Pn = nat(rt), nat(P)
        goal = Or(Eq(R + hi * M64, Pn), Eq(R + (hi + 1) * M64, Pn))
        qs = [Query("congruence", [], goal, bounds)]
        q2 = nopanic(ex, [], bounds)
        if q2:
            qs.append(q2)
        return Built(qs, short_fns(ex), [], None, note="P stands for inner*rhs; validated through c07_f64_mul_small_canonical (same MIR)")
    return Obligation("c07_f64_mul_small_value", "C07",
                      "f64 mul_small: result + k*M = inner*s exactly with k in {hi, hi+1} (hi = product >> 64): the result denotes the right residue "
                      "(as Montgomery value of value(x)*s) even when it is not canonical; the `(s_hi << 32) - s_hi` subtraction cannot overflow",
                      "P = inner*s arbitrary in [0,(M-1)(2^32-1)]", build)


def ob_f64_chain(method, exponent):
    def build(prog):
        e = X.zelem("e")
        ex, r = run(prog, find(prog, "f64", "FieldElement" if method == "inv" else None, method), [e], mode="exponent", field="f64")
        bounds = {"e": (0, 2 ** 64)}
        goal = Eq(r.t, e.t * exponent)
        require_trivial(ex, f"f64 {method} (exponent mode)")
        last = ex.abstracted[-1] if ex.abstracted else ""
        if not last.endswith("Mul::mul"):
            raise NotEncodable("addition chain does not end in a field multiplication (canonicity argument does not apply)")
        # validation: the EXACT translation of the same function against native execution
        a = _v("a", "u64")
        exx, rx = run(prog, find(prog, "f64", "FieldElement" if method == "inv" else None, method), [X.elem(a)])
        val = Validation(f"f64 {method}", ["a"], [X.inner(rx)], {"a": (0, M64 - 1)}, special=SPECIAL, n=60)
        return Built([Query("exponent", [], goal, bounds)], short_fns(ex) + [f"abstracted: {x}" for x in sorted(set(ex.abstracted))], [val], None,
                     note=f"exponent abstraction over {len(ex.abstracted)} field operations; the last operation is Mul::mul, so the result is canonical by c07_f64_mul")
    return Obligation(f"c07_f64_{method}_chain", "C07",
                      f"f64 {method}: the fixed addition chain computes x^{exponent if method != 'inv' else 'M-2'} (exponent abstraction: result exponent = "
                      f"{'M-2' if method == 'inv' else exponent} * e for input exponent e)",
                      "all inputs (the chain is data-independent); loop bounds are compile-time constants, unrolled", build,
                      deps=[])


def ob_conv_from(F, src, bits):
    fld = F["name"]

    def build(prog):
        v = _v("v", src)
        ex, r = run(prog, find(prog, fld, "From", "from", targs=src), [v])
        wide = X.Sc(Ite(v.t, bvc(F["bits"], 1), bvc(F["bits"], 0)), F["ty"]) if src == "bool" else X.Sc(S.zext(v.t, F["bits"]), F["ty"])
        if fld == "f128":
            want = wide.t       # canonical representation: the element is the (small) value itself
            qname = "is_value"
        else:
            ex2, r2 = run(prog, find(prog, fld, None, "new"), [wide])
            want = X.inner(r2)
            qname = "is_new_of_widened"
        goal = Eq(X.inner(r), want)
        qs = [Query(qname, [], goal)]
        q2 = nopanic(ex, [], {})
        if q2:
            qs.append(q2)
        rng = {"v": (0, (1 << bits) - 1)}
        val = Validation(f"{fld} from_{src}", ["v"], [X.inner(r)], rng, special=SPECIAL)
        exp_py = (lambda x: x % F["M"]) if fld == "f128" else (lambda x: x * W % F["M"])
        lift = lambda q, env: _functional_replay(f"{fld} from_{src}", [int(env["v"])], exp_py(int(env["v"])), F["M"], f"{fld} From<{src}> is not new(v)", f"{fld}::from_{src}",
                                                 mod=F["M"] if fld == "f62" else None)
        return Built(qs, short_fns(ex), [val], lift)
    return Obligation(f"c07_{fld}_from_{src}", "C07", f"{fld} From<{src}>::from(v) = " + ("the element with value v" if fld == "f128" else f"new(v as u64) (then c07_{fld}_new)"),
                      f"v: {src} full width", build)


def ob_f128_eq():
    def build(prog):
        a, b = _v("a", "u128"), _v("b", "u128")
        ex, r = run(prog, find(prog, "f128", "PartialEq", "eq"), [X.elem(a), X.elem(b)], refs=True)
        qs = [Query("functional", [], Eq(r.t, Eq(a.t, b.t)))]
        q2 = nopanic(ex, [], {})
        if q2:
            qs.append(q2)
        rng = {"a": (0, 2 ** 128 - 1), "b": (0, 2 ** 128 - 1)}
        val = Validation("f128 eq", ["a", "b"], [r.t], rng, special=SPECIAL, fixed=[{"a": 5, "b": 5}, {"a": M128 - 1, "b": M128 - 1}, {"a": 0, "b": 1}])
        lift = lambda q, env: Replay([f"f128 eq {env['a']} {env['b']}"], {"kind": "tok_ne", "index": 0, "value": int(env["a"] == env["b"])}, "f128::eq/functional",
                                     "f128 == disagrees with equality of the canonical values")
        return Built(qs, short_fns(ex), [val], lift)
    return Obligation("c07_f128_eq", "C07", "f128 == (derived PartialEq) is equality of the stored u128; on canonical values that is equality of residues",
                      "a, b: u128 full width", build)


def ob_f62_to_int(dst):
    def build(prog):
        a = _v("a", "u64")
        ex, r = run(prog, find(prog, "f62", "From", "from", targs="BaseElement", type_=dst), [X.elem(a)])
        ex2, r2 = run(prog, find(prog, "f62", "StarkField", "as_int"), [X.elem(a)], refs=True)
        bounds = {"a": (0, 2 * M62 - 1)}
        qs = [Query("is_as_int", [], Eq(r.t, S.zext(r2.t, X.INT_BITS[dst])), bounds)]
        q2 = nopanic(ex, [], bounds)
        if q2:
            qs.append(q2)
        val = Validation(f"f62 to_{dst}", ["a"], [r.t], bounds, special=SPECIAL)
        Ri = pow(W, -1, M62)
        lift = lambda q, env: _functional_replay(f"f62 to_{dst}", [env["a"]], env["a"] * Ri % M62, M62, f"{dst}::from(f62 element) is not as_int", f"f62::to_{dst}")
        return Built(qs, short_fns(ex), [val], lift)
    return Obligation(f"c07_f62_to_{dst}", "C07", f"{dst}::from(f62 element) = as_int (then c07_f62_as_int)", "x < 2M full width", build)


def Sc64(v):
    if v.ty == "bool":
        return X.Sc(Ite(v.t, bvc(64, 1), bvc(64, 0)), "u64")
    return X.Sc(S.zext(v.t, 64), "u64")


def _enum_ok(r):
    if not isinstance(r, X.Enum):
        raise NotEncodable("expected a Result/Option value")
    oks = [(g, f) for g, vn, f in r.alts if vn in ("Ok", "Some")]
    if len(oks) > 1:
        raise NotEncodable("several Ok alternatives")
    if not oks:
        return S.FALSE, None
    return oks[0][0], oks[0][1][0]


def ob_try_from_int(F, src):
    fld, M = F["name"], F["M"]
    bits = X.INT_BITS[src]

    def build(prog):
        v = _v("v", src)
        ex, r = run(prog, find(prog, fld, "TryFrom", "try_from", targs=src), [v])
        ok, payload = _enum_ok(r)
        vv = X.Sc(S.trunc(v.t, F["bits"]) if bits > F["bits"] else S.zext(v.t, F["bits"]), F["ty"])
        if fld == "f128":
            ex2, r2 = None, X.elem(vv)       # canonical representation: the element is the value itself
            newt = vv.t
        else:
            ex2, r2 = run(prog, find(prog, fld, None, "new"), [vv])
            newt = X.inner(r2)
        pt = X.inner(payload) if payload is not None else bvc(F["bits"], 0)
        goal = And(Eq(ok, ult(v.t, bvc(bits, M))), Implies(ok, Eq(pt, newt)))
        qs = [Query("functional", [], goal)]
        q2 = nopanic(ex, [], {})
        if q2:
            qs.append(q2)
        rng = {"v": (0, (1 << bits) - 1)}
        val = Validation(f"{fld} try_from_{src}", ["v"], [ok, Ite(ok, pt, bvc(F["bits"], 0))], rng, special=SPECIAL)

        def lift(q, env):
            x = int(env["v"])
            return Replay([f"{fld} try_from_{src} {x}"], {"kind": "tok_ne", "index": 0, "value": int(x < M)}, f"{fld}::try_from_{src}",
                          f"{fld} TryFrom<{src}> accepts/rejects on the wrong side of the modulus")
        return Built(qs, short_fns(ex), [val], lift)
    return Obligation(f"c07_{fld}_try_from_{src}", "C07",
                      f"{fld} TryFrom<{src}>: Ok exactly when v < M, and then the element is new(v) (error strings are opaque)", f"v: {src} full width", build)


def ob_f64_to_int(dst):
    def build(prog):
        a = _v("a", "u64")
        ex, r = run(prog, find(prog, "f64", "From", "from", targs="BaseElement", type_=dst), [X.elem(a)])
        ex2, r2 = run(prog, find(prog, "f64", "StarkField", "as_int"), [X.elem(a)], refs=True)
        goal = Eq(r.t, S.zext(r2.t, X.INT_BITS[dst]))
        qs = [Query("is_as_int", [], goal)]
        q2 = nopanic(ex, [], {})
        if q2:
            qs.append(q2)
        val = Validation(f"f64 to_{dst}", ["a"], [r.t], {"a": (0, W - 1)}, special=SPECIAL)
        Ri = pow(W, -1, M64)
        lift = lambda q, env: _functional_replay(f"f64 to_{dst}", [env["a"]], env["a"] * Ri % M64, M64, f"{dst}::from(element) is not as_int", f"f64::to_{dst}")
        return Built(qs, short_fns(ex), [val], lift)
    return Obligation(f"c07_f64_to_{dst}", "C07", f"{dst}::from(f64 element) = as_int (then c07_f64_as_int_*)", "x: u64 full width", build)


def ob_f64_try_to(dst):
    bits = {"u8": 8, "u16": 16, "u32": 32, "bool": 1}[dst]

    def build(prog):
        a = _v("a", "u64")
        ex, r = run(prog, find(prog, "f64", "TryFrom", "try_from", targs="BaseElement", type_=dst), [X.elem(a)])
        ex2, r2 = run(prog, find(prog, "f64", "StarkField", "as_int"), [X.elem(a)], refs=True)
        ok, payload = _enum_ok(r)
        fits = ult(r2.t, bvc(64, 1 << bits))
        if dst == "bool":
            pt = Ite(payload.t, bvc(64, 1), bvc(64, 0))
        else:
            pt = S.zext(payload.t, 64)
        goal = And(Eq(ok, fits), Implies(ok, Eq(pt, r2.t)))
        qs = [Query("functional", [], goal)]
        q2 = nopanic(ex, [], {})
        if q2:
            qs.append(q2)
        val = Validation(f"f64 try_to_{dst}", ["a"], [ok, Ite(ok, pt, bvc(64, 0))], {"a": (0, W - 1)}, special=SPECIAL,
                         fixed=[{"a": (k * W) % M64} for k in (0, 1, 2, 255, 256, 65535, 65536, 2 ** 32 - 1, 2 ** 32)])
        Ri = pow(W, -1, M64)
        lift = lambda q, env: Replay([f"f64 try_to_{dst} {env['a']}"], {"kind": "tok_ne", "index": 0, "value": int(env["a"] * Ri % M64 < (1 << bits))},
                                     f"f64::try_to_{dst}", f"TryFrom<BaseElement> for {dst} accepts/rejects wrongly")
        return Built(qs, short_fns(ex), [val], lift)
    return Obligation(f"c07_f64_try_to_{dst}", "C07", f"{dst}::try_from(f64 element): Ok exactly when as_int fits, value = as_int", "x: u64 full width", build)


def ob_bytes(F, which):
    """TryFrom<[u8; 8]> (f64/f62) and from_random_bytes / TryFrom<&[u8]> over every slice length 0..=n+1"""
    fld, M, nb = F["name"], F["M"], F["bits"] // 8

    def build(prog):
        qs, vals, fns = [], [], []
        lens = [nb] if which == "bytes8" else list(range(0, nb + 2))
        for ln in lens:
            bs = [_v(f"b{ln}_{i}", "u8") for i in range(ln)]
            if which == "bytes8":
                ex, r = run(prog, find(prog, fld, "TryFrom", "try_from", targs=f"[u8; {nb}]"), [X.Agg(bs, "array")])
                natop = "try_from_bytes8"
            elif which == "slice":
                ex, r = run(prog, find(prog, fld, "TryFrom", "try_from", targs="&[u8]"), [X.Agg(bs, "slice")], refs=True)
                natop = "try_from_slice"
            else:
                ex, r = run(prog, find(prog, fld, "Randomizable", "from_random_bytes"), [X.Agg(bs, "slice")], refs=True)
                natop = "from_random_bytes"
            ok, payload = _enum_ok(r)
            fns += short_fns(ex)
            if ln == nb:
                val_t = bs[-1].t
                for b in reversed(bs[:-1]):
                    val_t = S.concat(val_t, b.t)
                vv = X.Sc(val_t, F["ty"])
                if fld == "f128":
                    newt = val_t
                else:
                    ex2, r2 = run(prog, find(prog, fld, None, "new"), [vv])
                    newt = X.inner(r2)
                pt = X.inner(payload)
                goal = And(Eq(ok, ult(val_t, bvc(F["bits"], M))), Implies(ok, Eq(pt, newt)))
                outs = [ok, Ite(ok, pt, bvc(F["bits"], 0))]
            else:
                goal = Not(ok)
                outs = [ok]
            qs.append(Query(f"len{ln}", [], goal))
            q2 = nopanic(ex, [], {}, name=f"nopanic_len{ln}")
            if q2:
                qs.append(q2)
            names = [b.t.p for b in bs]
            fixed = []
            if ln == nb:
                for x in (0, 1, M - 1, M, M + 1, (1 << F["bits"]) - 1):
                    fixed.append({n: (x >> (8 * i)) & 255 for i, n in enumerate(names)})
            vals.append(Validation(f"{fld} {natop}", names, outs, {n: (0, 255) for n in names}, special=[0, 255, 1, 128], fixed=fixed, n=40 if ln == nb else 3))

        def lift(q, env):
            ln = int(q.name.replace("nopanic_", "").replace("len", ""))
            bs = [env.get(f"b{ln}_{i}", 0) for i in range(ln)]
            x = sum(b << (8 * i) for i, b in enumerate(bs))
            want = int(ln == nb and x < M)
            return Replay([f"{fld} {natop} " + " ".join(map(str, bs))], {"kind": "tok_ne", "index": 0, "value": want}, f"{fld}::{natop}/len{ln}",
                          f"{fld} {natop} accepts/rejects a byte string wrongly")
        return Built(qs, sorted(set(fns)), vals, lift)
    nm = {"bytes8": f"try_from_bytes{nb}", "slice": "try_from_slice", "random": "from_random_bytes"}[which]
    return Obligation(f"c07_{fld}_{nm}", "C07",
                      f"{fld} {nm}: accepted exactly when the slice has {nb} bytes and the little-endian value is < M; the element is new(value)",
                      f"slice lengths 0..{nb + 1} enumerated, contents symbolic" if which != "bytes8" else "all 8-byte arrays", build)


# =================================================================================================
# f62 : lazy Montgomery representation in [0, 2M)
U62 = (-pow(M62, -1, W)) % W


def f62_witness(r_int, P_int, Pl):
    """r*2^64 = P + q*M with q = (P mod 2^64) * (-M^-1) mod 2^64"""
    q = nat(S.bvmul(Pl, bvc(64, U62)))
    return Eq(r_int * W, P_int + q * 2 ** 62 - q * (111 * 2 ** 39) + q)


def ob_f62_mul():
    def make(prog, abstract):
        a, b = _v("a", "u64"), _v("b", "u64")
        ex, r = run(prog, find(prog, "f62", "Mul", "mul"), [X.elem(a), X.elem(b)], abstract_products=abstract)
        return ex, X.inner(r), a, b

    def build(prog):
        ex, rt, a, b = make(prog, True)
        prods = [p for p in ex.products if {p[0].args[0].id, p[1].args[0].id} == {a.t.id, b.t.id}]
        if len(prods) != 1:
            raise NotEncodable(f"f62 mul: expected the operand product to be abstracted, products={len(ex.products)}")
        P = prods[0][2]
        others = [p for p in ex.products if p[2] is not P]
        if others:
            raise NotEncodable("f62 mul: unexpected additional symbolic products")
        bounds = {P.p: (0, (2 * M62 - 1) ** 2)}
        goal = And(ult(rt, bvc(64, 2 * M62)), f62_witness(nat(rt), nat(P), S.trunc(P, 64)))
        qs = [Query("identity", [], goal, bounds)]
        q2 = nopanic(ex, [], bounds)
        if q2:
            qs.append(q2)
        exx, rtx, ax, bx = make(prog, False)
        rng = {"a": (0, 2 * M62 - 1), "b": (0, 2 * M62 - 1)}
        val = Validation("f62 mul", ["a", "b"], [rtx], rng, special=SPECIAL)
        Ri = pow(W, -1, M62)

        def relift():
            e2, r2, a2, b2 = make(prog, False)
            x = S.bvmul(S.zext(a2.t, 128), S.zext(b2.t, 128))
            g = And(ult(r2, bvc(64, 2 * M62)), f62_witness(nat(r2), nat(x), S.trunc(x, 64)))
            lift = lambda q, env: _functional_replay("f62 mul", [env["a"], env["b"]], env["a"] * env["b"] * Ri % M62, M62, "f62 mul is not a*b*2^-64 mod M / leaves [0,2M)",
                                                     "f62::mul/functional", mod=M62)
            return Built([Query("identity", [], g, rng)], [], [], lift)
        return Built(qs, short_fns(ex), [val], None, relift, note="product abstracted: P in [0,(2M-1)^2] stands for a*b")
    return Obligation("c07_f62_mul", "C07",
                      "f62 mul (private mul(a,b) through Mul::mul): for every product P of two values in [0,2M): r*2^64 = P + q*M exactly, r < 2M, "
                      "`z + q*M` does not overflow u128", "a, b < 2M full width; P <= (2M-1)^2 arbitrary", build)


def _f62_direct():
    M = M62
    two = 2 * M
    lt2m = lambda r: ult(r, bvc(64, two))
    obs = []
    obs.append(direct("c07_f62_add", F62, "f62 add: r < 2M and r + k*M = a+b for some k in 0..3 (a, b < 2M)", lambda p: find(p, "f62", "Add", "add"), ["a", "b"],
                      lambda A, B, R, a, b, r: And(lt2m(r), Or(*[Eq(R + k * M, A + B) for k in range(4)])),
                      lambda a, b: (a + b) % M, "add", lazy=True))
    obs.append(direct("c07_f62_sub", F62, "f62 sub: r < 2M and r = a-b or a-b+2M", lambda p: find(p, "f62", "Sub", "sub"), ["a", "b"],
                      lambda A, B, R, a, b, r: And(lt2m(r), Eq(R, Ite(Lt(A, B), A - B + two, A - B))),
                      lambda a, b: (a - b) % M, "sub", lazy=True))
    obs.append(direct("c07_f62_neg", F62, "f62 neg: r < 2M and r = 0 (a = 0) or 2M-a", lambda p: find(p, "f62", "Neg", "neg"), ["a"],
                      lambda A, R, a, r: And(lt2m(r), Eq(R, Ite(Eq(A, intc(0)), intc(0), two - A))),
                      lambda a: (-a) % M, "neg", lazy=True))
    obs.append(direct("c07_f62_double", F62, "f62 double: r < 2M and r + k*M = 2a, k in 0..3", lambda p: find(p, "f62", "FieldElement", "double"), ["a"],
                      lambda A, R, a, r: And(lt2m(r), Or(*[Eq(R + k * M, 2 * A) for k in range(4)])),
                      lambda a: (2 * a) % M, "double", lazy=True))
    return obs


def ob_f62_as_int():
    def build(prog):
        a = _v("a", "u64")
        ex, r = run(prog, find(prog, "f62", "StarkField", "as_int"), [X.elem(a)], refs=True)
        bounds = {"a": (0, 2 * M62 - 1)}
        q = nat(S.bvmul(a.t, bvc(64, U62)))
        qM = q * 2 ** 62 - q * (111 * 2 ** 39) + q
        T = nat(r.t)
        goal = And(ult(r.t, bvc(64, M62)), Or(Eq(T * W, nat(a.t) + qM), Eq(T * W + M62 * W, nat(a.t) + qM)))
        qs = [Query("identity", [], goal, bounds)]
        q2 = nopanic(ex, [], bounds)
        if q2:
            qs.append(q2)
        val = Validation("f62 as_int", ["a"], [r.t], bounds, special=SPECIAL)
        Ri = pow(W, -1, M62)
        lift = lambda qq, env: _functional_replay("f62 as_int", [env["a"]], env["a"] * Ri % M62, M62, "f62 as_int is not inner*2^-64 mod M, canonical", "f62::as_int/functional")
        return Built(qs, short_fns(ex), [val], lift)
    return Obligation("c07_f62_as_int", "C07", "f62 as_int = normalize(mul(x,1)): t < M and t*2^64 = x + q*M - c*M*2^64 (c in {0,1}) for every x < 2M",
                      "x < 2M full width", build)


def ob_f62_new():
    def build(prog):
        v = _v("v", "u64")
        ex, r = run(prog, find(prog, "f62", None, "new"), [v])
        rt = X.inner(r)
        r2 = scalar_const(prog, "field::f62::R2")
        x = nat(v.t) * intc(r2)
        xl = S.bvmul(v.t, bvc(64, r2))
        goal = And(ult(rt, bvc(64, 2 * M62)), f62_witness(nat(rt), x, xl))
        qs = [Query("identity", [], goal)]
        q2 = nopanic(ex, [], {})
        if q2:
            qs.append(q2)
        val = Validation("f62 new", ["v"], [rt], {"v": (0, W - 1)}, special=SPECIAL)
        lift = lambda q, env: _functional_replay("f62 new", [env["v"]], env["v"] * W % M62, M62, "f62 new(v) is not v*2^64 mod M in [0,2M)", "f62::new/functional", mod=M62)
        return Built(qs, short_fns(ex), [val], lift)
    return Obligation("c07_f62_new", "C07", "f62 new(v) = mul(v, R2): r < 2M and r*2^64 = v*R2 + q*M for EVERY u64 v (the doc comment's range claim included)",
                      "v: u64 full width", build)


def ob_f62_eq():
    def build(prog):
        a, b = _v("a", "u64"), _v("b", "u64")
        ex, r = run(prog, find(prog, "f62", "PartialEq", "eq"), [X.elem(a), X.elem(b)], refs=True)
        A, B = nat(a.t), nat(b.t)
        bounds = {"a": (0, 2 * M62 - 1), "b": (0, 2 * M62 - 1)}
        goal = Eq(r.t, Or(Eq(A, B), Eq(A, B + M62), Eq(A + M62, B)))
        qs = [Query("functional", [], goal, bounds)]
        q2 = nopanic(ex, [], bounds)
        if q2:
            qs.append(q2)
        val = Validation("f62 eq", ["a", "b"], [r.t], bounds, special=SPECIAL, fixed=[{"a": 0, "b": M62}, {"a": M62, "b": 0}, {"a": 7, "b": 7 + M62}, {"a": 1, "b": 2}])
        lift = lambda q, env: Replay([f"f62 eq {env['a']} {env['b']}"], {"kind": "tok_ne", "index": 0, "value": int((env["a"] - env["b"]) % M62 == 0)},
                                     "f62::eq/functional", "f62 == disagrees with equality of residues")
        return Built(qs, short_fns(ex), [val], lift)
    return Obligation("c07_f62_eq", "C07", "f62 ==: true exactly when the two representations in [0,2M) denote the same residue (a = b, a = b+M or a+M = b)",
                      "a, b < 2M full width", build)


# =================================================================================================
# f128 : canonical representation
def _f128_direct():
    M = M128
    ltm = lambda r: ult(r, bvc(128, M))
    obs = []
    obs.append(direct("c07_f128_add", F128, "f128 add: r < M and r = (a+b) mod M", lambda p: find(p, "f128", "Add", "add"), ["a", "b"],
                      lambda A, B, R, a, b, r: And(ltm(r), Eq(R, Ite(Le(intc(M), A + B), A + B - M, A + B))), lambda a, b: (a + b) % M, "add"))
    obs.append(direct("c07_f128_sub", F128, "f128 sub: r < M and r = (a-b) mod M", lambda p: find(p, "f128", "Sub", "sub"), ["a", "b"],
                      lambda A, B, R, a, b, r: And(ltm(r), Eq(R, Ite(Lt(A, B), A - B + M, A - B))), lambda a, b: (a - b) % M, "sub"))
    obs.append(direct("c07_f128_neg", F128, "f128 neg: r < M and r = (-a) mod M", lambda p: find(p, "f128", "Neg", "neg"), ["a"],
                      lambda A, R, a, r: And(ltm(r), Eq(R, Ite(Eq(A, intc(0)), intc(0), M - A))), lambda a: (-a) % M, "neg"))
    return obs


def ob_f128_new():
    def build(prog):
        v = _v("v", "u128")
        ex, r = run(prog, find(prog, "f128", None, "new"), [v])
        rt = X.inner(r)
        V = nat(v.t)
        # new() subtracts M at most once: canonical exactly when v < 2M (documented "modular reduction is silently performed")
        goal = And(Eq(nat(rt), Ite(Lt(V, intc(M128)), V, V - M128)), Implies(Lt(V, intc(2 * M128)), ult(rt, bvc(128, M128))))
        qs = [Query("functional", [], goal)]
        q2 = nopanic(ex, [], {})
        if q2:
            qs.append(q2)
        val = Validation("f128 new", ["v"], [rt], {"v": (0, 2 ** 128 - 1)}, special=SPECIAL)
        lift = lambda q, env: _functional_replay("f128 new", [env["v"]], env["v"] % M128, M128, "f128 new(v) is not v mod M", "f128::new/functional")
        return Built(qs, short_fns(ex), [val], lift)
    return Obligation("c07_f128_new", "C07", "f128 new(v) = v or v-M, canonical for every v < 2M (every u128 is < 2M since 2M > 2^128)", "v: u128 full width", build)


def _limbs192(v):
    return nat(v.items[0].t) + nat(v.items[1].t) * W + nat(v.items[2].t) * (W * W)


def ob_f128_kernel(which):
    def build(prog):
        if which == "mul_128x64":
            a, b = _v("a", "u128"), _v("b", "u64")
            ex, r = run(prog, "mul_128x64", [a, b], abstract_products=True)
            if len(ex.products) != 2:
                raise NotEncodable(f"mul_128x64: expected two limb products, found {len(ex.products)}")
            lims = (W - 1) ** 2
            bounds = {p[2].p: (0, lims) for p in ex.products}
            lo_op = S.zext(S.trunc(a.t, 64), 128)
            hi_op = S.bvlshr(a.t, bvc(128, 64))
            b_op = S.zext(b.t, 128)

            def is_prod(p, x, y):
                return (p[0] is x and p[1] is y) or (p[0] is y and p[1] is x)
            plo = [p[2] for p in ex.products if is_prod(p, lo_op, b_op)]
            phi = [p[2] for p in ex.products if is_prod(p, hi_op, b_op)]
            if len(plo) != 1 or len(phi) != 1:
                raise NotEncodable("mul_128x64: cannot identify the limb products")
            goal = Eq(_limbs192(r), nat(plo[0]) + nat(phi[0]) * W)
            qs = [Query("exact", [], goal, bounds)]
            note = "limb products a_lo*b, a_hi*b abstracted (exact by width); statement: z0 + z1*2^64 + z2*2^128 = a_lo*b + a_hi*b*2^64"
        elif which == "mul_reduce":
            z = [_v(f"z{i}", "u64") for i in range(3)]
            ex, r = run(prog, "mul_reduce", z)
            Z = nat(z[0].t) + nat(z[1].t) * W + nat(z[2].t) * (W * W)
            goal = And(Eq(_limbs192(r), Z - nat(z[2].t) * M128), ule(r.items[2].t, bvc(64, 1)))
            bounds = {}
            qs = [Query("exact", [], goal, bounds)]
            note = "statement: (r0,r1,r2) = z - z2*M as an exact 192-bit integer, r2 <= 1"
        elif which == "sub_modulus":
            lo, hi = _v("lo", "u64"), _v("hi", "u64")
            ex, r = run(prog, "sub_modulus", [lo, hi])
            Vv = nat(lo.t) + nat(hi.t) * W
            Rv = nat(r.items[0].t) + nat(r.items[1].t) * W
            goal = Eq(Rv, Ite(Le(intc(M128), Vv), Vv - M128, Vv - M128 + W * W))
            bounds = {}
            qs = [Query("exact", [], goal, bounds)]
            note = "statement: result = (v - M) mod 2^128"
        else:
            a, b, c = _v("a", "u64"), _v("b", "u64"), _v("c", "u64")
            ex, r = run(prog, "add64_with_carry", [a, b, c])
            goal = Eq(nat(r.items[0].t) + nat(r.items[1].t) * W, nat(a.t) + nat(b.t) + nat(c.t))
            bounds = {}
            qs = [Query("exact", [], goal, bounds)]
            note = "statement: (sum, carry) = a + b + c exactly"
        q2 = nopanic(ex, [], bounds)
        if q2:
            qs.append(q2)
        return Built(qs, short_fns(ex), [], None, note=note + "; private kernel, translator validated through f128 mul")
    return Obligation(f"c07_f128_{which}", "C07", f"f128 private kernel {which} as an exact 192-bit integer statement (lemma of f128 mul)", "all limb values, full width", build)


def _f128_mul_terms(prog, abstract):
    a, b = _v("a", "u128"), _v("b", "u128")
    ex, r = run(prog, find(prog, "f128", "Mul", "mul"), [X.elem(a), X.elem(b)], abstract_products=abstract)
    return ex, X.inner(r), a, b


def ob_f128_mul(which):
    def build(prog):
        ex, rt, a, b = _f128_mul_terms(prog, True)
        if len(ex.products) != 4:
            raise NotEncodable(f"f128 mul: expected four 64x64 limb products, found {len(ex.products)}")
        L = (W - 1) ** 2
        bounds = {p[2].p: (0, L) for p in ex.products}
        a_lo, a_hi = S.zext(S.trunc(a.t, 64), 128), S.bvlshr(a.t, bvc(128, 64))
        # mul() passes (b >> 64) as u64 and b as u64 to mul_128x64, which widens them again
        b_lo, b_hi = S.zext(S.trunc(b.t, 64), 128), S.zext(S.trunc(S.bvlshr(b.t, bvc(128, 64)), 64), 128)

        def pick(x, y):
            return [p for p in ex.products if (p[0] is x and p[1] is y) or (p[0] is y and p[1] is x)]
        p_ll, p_lh, p_hl, p_hh = pick(a_lo, b_lo), pick(a_lo, b_hi), pick(a_hi, b_lo), pick(a_hi, b_hi)
        if not (len(p_ll) == len(p_lh) == len(p_hl) == len(p_hh) == 1):
            raise NotEncodable("f128 mul: cannot classify the limb products")
        Xv = nat(p_ll[0][2]) + (nat(p_lh[0][2]) + nat(p_hl[0][2])) * W + nat(p_hh[0][2]) * (W * W)
        pre = [Lt(Xv, intc(M128 * M128))]     # a, b < M  => a*b <= (M-1)^2
        # the four opaque products are those of SOME a, b < M: a_hi, b_hi <= M>>64 bounds the high products
        mh = M128 >> 64
        pre += [Le(nat(p_hh[0][2]), intc(mh * mh)), Le(nat(p_lh[0][2]), intc((W - 1) * mh)), Le(nat(p_hl[0][2]), intc((W - 1) * mh))]
        if which == "range":
            goal = ult(rt, bvc(128, M128))
            qs = [Query("canonical", pre, goal, bounds, encodings=("int",))]
            q2 = nopanic(ex, pre, bounds)
            if q2:
                q2.encodings = ("int", "bv")
                qs.append(q2)
        else:
            goal = Eq(Xv % M128, nat(rt))
            qs = [Query("congruence", pre, goal, bounds, encodings=("int",))]
        exx, rtx, ax, bx = _f128_mul_terms(prog, False)
        rng = {"a": (0, M128 - 1), "b": (0, M128 - 1)}
        val = Validation("f128 mul", ["a", "b"], [rtx], rng, special=SPECIAL, n=120)
        return Built(qs, short_fns(ex), [val], None, None,
                     note="four 64x64 limb products opaque (shared between the two mul_128x64 calls), constrained only by the ranges implied by a, b < M")
    if which == "range":
        return Obligation("c07_f128_mul_range", "C07", "f128 mul: result < M (canonical) and no overflow assertion reachable, limb products opaque",
                          "a, b < M; limb products arbitrary in range", build)
    return Obligation("c07_f128_mul_value", "C07", "f128 mul: result = (sum of limb products) mod M as ONE query (measured unknown after 280 s in the design phase: attempt)",
                      "a, b < M; limb products arbitrary in range", build, required=False)


def ob_f128_mul_composed(lemmas):
    """f128 mul = a*b mod M by telescoping the kernel lemmas (each kernel call replaced by its exact integer post-condition)"""
    EXPECT = ["mul_128x64", "mul_reduce", "sub_modulus", "mul_128x64", "add64_with_carry", "add64_with_carry", "sub_modulus", "mul_reduce", "sub_modulus"]
    NOUT = {"mul_128x64": 3, "mul_reduce": 3, "sub_modulus": 2, "add64_with_carry": 2}

    def build(prog):
        log = []

        def mk(name):
            def f(ex, st, args):
                k = len(log)
                outs = [X.Sc(S.var(f"k{k}_{name[:5].replace('_', '')}{i}", S.BV(64)), "u64") for i in range(NOUT[name])]
                log.append((name, list(args), outs, st.pc))
                ex.abstracted.append(f"{name} (call {k})")
                return X.Agg(outs, "tuple")
            return f
        a, b = _v("a", "u128"), _v("b", "u128")
        ex, r = run(prog, find(prog, "f128", "Mul", "mul"), [X.elem(a), X.elem(b)], summaries={n: mk(n) for n in NOUT})
        rt = X.inner(r)
        if [l[0] for l in log] != EXPECT:
            raise NotEncodable(f"f128 mul: unexpected kernel call sequence {[l[0] for l in log]}")
        n2 = lambda v: nat(v[0].t) + nat(v[1].t) * W
        n3 = lambda v: nat(v[0].t) + nat(v[1].t) * W + nat(v[2].t) * (W * W)
        Qh, Ql = S.var("Q_a_bhi", S.INT), S.var("Q_a_blo", S.INT)
        bounds = {"a": (0, M128 - 1), "b": (0, M128 - 1), "Q_a_bhi": (0, (M128 - 1) * (M128 >> 64)), "Q_a_blo": (0, (M128 - 1) * (W - 1))}
        posts = []
        cond = lambda k: S.And(*log[k][3])
        for k, (name, args, outs, pc) in enumerate(log):
            if name == "mul_128x64":
                posts.append(Eq(n3(outs), Qh if k == 0 else Ql))
            elif name == "mul_reduce":
                posts.append(And(Eq(n3(outs), n3(args) - nat(args[2].t) * M128), ule(outs[2].t, bvc(64, 1))))
            elif name == "sub_modulus":
                v = n2(args)
                posts.append(Eq(n2(outs), Ite(Le(intc(M128), v), v - M128, v - M128 + W * W)))
            else:
                posts.append(Eq(nat(outs[0].t) + nat(outs[1].t) * W, nat(args[0].t) + nat(args[1].t) + nat(args[2].t)))
        # the two widening calls are mul_128x64(a, b_hi) and mul_128x64(a, b_lo): a*b = Q_lo + 2^64 * Q_hi (distributivity, paper step)
        args_ok = And(Eq(log[0][1][0].t, a.t), Eq(log[3][1][0].t, a.t), Eq(log[0][1][1].t, S.extract(b.t, 127, 64)), Eq(log[3][1][1].t, S.trunc(b.t, 64)))
        one = lambda c: Ite(c, intc(1), intc(0))
        K = (nat(log[1][1][2].t) + one(cond(2)) + one(cond(6))) * W + nat(log[7][1][2].t) + one(cond(8))
        Xv = Ql + Qh * W
        goal = And(args_ok, ult(rt, bvc(128, M128)), Eq(nat(rt) + K * M128, Xv))
        qs = [Query("telescope", posts, goal, bounds, encodings=("int",))]
        q2 = nopanic(ex, posts, bounds)
        if q2:
            q2.encodings = ("int",)
            qs.append(q2)
        exx, rtx, ax, bx = _f128_mul_terms(prog, False)
        val = Validation("f128 mul", ["a", "b"], [rtx], {"a": (0, M128 - 1), "b": (0, M128 - 1)}, special=SPECIAL, n=120)
        return Built(qs, short_fns(ex) + [f"abstracted: {x}" for x in ex.abstracted], [val], None,
                     note="each kernel call replaced by its lemma's exact post-condition; Q_a_bhi / Q_a_blo stand for the exact products a*b_hi, a*b_lo "
                          "(the arguments of the two mul_128x64 calls are checked to be (a, b>>64) and (a, b as u64)); K*M is the sum of the multiples of M "
                          "subtracted along the way")
    return Obligation("c07_f128_mul", "C07",
                      "f128 mul: result < M and result + K*M = a*b_lo + 2^64 * a*b_hi (= a*b) exactly, K assembled from the reductions performed: "
                      "mul = a*b mod M for all canonical a, b, relative to the four kernel lemmas",
                      "a, b < M full width; the two 192-bit products arbitrary in range", build, deps=lemmas)


def ob_f128_mul_generic(lemmas):
    """structure-independent twin of c07_f128_mul: whatever sequence of kernel calls mul() makes, each call is replaced by its
    lemma's exact post-condition and the result must be canonical and congruent to a*b_lo + 2^64*a*b_hi modulo M (the quotient is the
    solver's: integer division by the constant M). Used when the telescoping obligation does not recognise the call sequence."""
    NOUT = {"mul_128x64": 3, "mul_reduce": 3, "sub_modulus": 2, "add64_with_carry": 2}

    def build(prog):
        log = []

        def mk(name):
            def f(ex, st, args):
                k = len(log)
                outs = [X.Sc(S.var(f"g{k}_{name[:5].replace('_', '')}{i}", S.BV(64)), "u64") for i in range(NOUT[name])]
                log.append((name, list(args), outs, st.pc))
                ex.abstracted.append(f"{name} (call {k})")
                return X.Agg(outs, "tuple")
            return f
        a, b = _v("a", "u128"), _v("b", "u128")
        ex, r = run(prog, find(prog, "f128", "Mul", "mul"), [X.elem(a), X.elem(b)], summaries={n: mk(n) for n in NOUT})
        rt = X.inner(r)
        wid = [l for l in log if l[0] == "mul_128x64"]
        if len(wid) != 2:
            raise NotEncodable(f"f128 mul: expected two widening multiplications, saw {len(wid)}")
        n2 = lambda v: nat(v[0].t) + nat(v[1].t) * W
        n3 = lambda v: nat(v[0].t) + nat(v[1].t) * W + nat(v[2].t) * (W * W)
        Qh, Ql = S.var("Q_a_bhi", S.INT), S.var("Q_a_blo", S.INT)
        bounds = {"a": (0, M128 - 1), "b": (0, M128 - 1), "Q_a_bhi": (0, (M128 - 1) * (M128 >> 64)), "Q_a_blo": (0, (M128 - 1) * (W - 1))}
        posts = []
        first = True
        for k, (name, args, outs, pc) in enumerate(log):
            if name == "mul_128x64":
                posts.append(Eq(n3(outs), Qh if first else Ql))
                first = False
            elif name == "mul_reduce":
                posts.append(And(Eq(n3(outs), n3(args) - nat(args[2].t) * M128), ule(outs[2].t, bvc(64, 1))))
            elif name == "sub_modulus":
                v = n2(args)
                posts.append(Eq(n2(outs), Ite(Le(intc(M128), v), v - M128, v - M128 + W * W)))
            else:
                posts.append(Eq(nat(outs[0].t) + nat(outs[1].t) * W, nat(args[0].t) + nat(args[1].t) + nat(args[2].t)))
        args_ok = And(Eq(wid[0][1][0].t, a.t), Eq(wid[1][1][0].t, a.t), Eq(wid[0][1][1].t, S.extract(b.t, 127, 64)), Eq(wid[1][1][1].t, S.trunc(b.t, 64)))
        Xv = Ql + Qh * W
        quot = S.raw("idiv", [Xv - nat(rt), intc(M128)], S.INT)
        goal = And(args_ok, ult(rt, bvc(128, M128)), Eq(nat(rt) + quot * M128, Xv))
        qs = [Query("congruent", posts, goal, bounds, encodings=("int",))]

        def relift():
            # a lemma-level model names the two 192-bit products, not operands. With ONE operand fixed to a concrete boundary value the
            # products become linear in the other operand (Q_hi = c*b_hi, Q_lo = c*b_lo), so the solver can look for a real (a, b).
            cands = [M128 - 1, M128 - 2, M128 - 3, (1 << 128) - (1 << 64) - 3, (1 << 127) + 1, (M128 - 1) // 2, (1 << 127) - 1, (1 << 126) + 12345]
            bh = nat(S.extract(b.t, 127, 64))
            bl = nat(S.trunc(b.t, 64))
            out = []
            for i, c in enumerate(cands):
                pre = posts + [Eq(nat(a.t), intc(c)), Eq(Qh, intc(c) * bh), Eq(Ql, intc(c) * bl)]
                out.append(Query(f"congruent_a{i}", pre, goal, bounds, encodings=("int",), timeout=120))

            def lift2(q, env):
                av, bv = env["a"], env["b"]
                return _functional_replay("f128 mul", [av, bv], av * bv % M128, M128, f"f128 mul({av}, {bv}) is not a*b mod M", "f128::mul/functional")
            return Built(out, short_fns(ex), [], lift2, note="operand a fixed to boundary constants: products linear in b")
        return Built(qs, short_fns(ex) + [f"abstracted: {x}" for x in ex.abstracted], [], None, relift=relift,
                     note=f"kernel call sequence {[l[0] for l in log]}; quotient by M left to the solver")
    return Obligation("c07_f128_mul_generic", "C07",
                      "f128 mul (structure-independent): with every kernel call replaced by its lemma, the result is canonical and congruent to "
                      "a*b_lo + 2^64*a*b_hi modulo M for all canonical a, b", "a, b < M full width", build, deps=lemmas)


# =================================================================================================
# constants
def _pow_chain(base, e, M):
    """x^e mod M as a term the SOLVER evaluates (no folding)"""
    Mc = intc(M)
    res = None
    acc = intc(base)
    while e:
        if e & 1:
            res = acc if res is None else S.raw("imod", [S.raw("imul", [res, acc], S.INT), Mc], S.INT)
        e >>= 1
        if e:
            acc = S.raw("imod", [S.raw("imul", [acc, acc], S.INT), Mc], S.INT)
    return res if res is not None else intc(1)


def _is_prime(n):
    if n < 2:
        return False
    for p in (2, 3, 5, 7, 11, 13, 17, 19, 23, 29, 31, 37):
        if n % p == 0:
            return n == p
    d, s = n - 1, 0
    while d % 2 == 0:
        d //= 2
        s += 1
    for a in (2, 3, 5, 7, 11, 13, 17, 19, 23, 29, 31, 37, 41, 43, 47, 53, 59, 61, 67, 71):
        x = pow(a, d, n)
        if x in (1, n - 1):
            continue
        for _ in range(s - 1):
            x = x * x % n
            if x == n - 1:
                break
        else:
            return False
    return True


FACTORS = {"f64": [2, 3, 5, 17, 257, 65537], "f62": [2, 13, 17, 37957], "f128": [2, 29, 181, 286619, 11394379, 18053749339]}


def ob_constants(F):
    fld, M, k = F["name"], F["M"], F["two_adicity"]
    pref = {"f64": "field::f64::", "f62": "field::f62::", "f128": "field::f128::"}[fld]

    def build(prog):
        ex = X.Executor(prog)

        def cval(trait, nm):
            n = prog.find(fld, trait, nm, consts=True)
            if n is None:
                for cn in prog.consts:
                    if cn.endswith("::" + nm) and "<impl at " in cn:
                        h = prog.impl_header(cn)
                        if h and h["field"] == fld and h["trait"] == trait:
                            n = cn
            if n is None:
                raise NotEncodable(f"constant {fld} {trait}::{nm} not found in the MIR dump")
            return ex.eval_const(n)

        def as_int_of(inner_term):
            if fld == "f128":
                return inner_term
            e2, r = run(prog, find(prog, fld, "StarkField", "as_int"), [X.elem(X.Sc(inner_term, F["ty"]))], refs=True)
            return r.t

        def scalar(name):
            return scalar_const(prog, pref + name)
        # factorisation sanity (python): product and primality of the hard-coded factors of M-1
        n = M - 1
        for p in FACTORS[fld]:
            if not _is_prime(p):
                raise NotEncodable(f"hard-coded factor {p} is not prime")
            while n % p == 0:
                n //= p
        if n != 1 or not _is_prime(M):
            raise NotEncodable("hard-coded factorisation of M-1 is wrong / M fails Miller-Rabin")
        parts, locate = [], []

        def claim(label, t):
            parts.append(t)
            locate.append((label, t))
        Mrepo = scalar("M")
        claim("M_is_documented_modulus", S.raw("eq", [intc(Mrepo), intc(M)], S.BOOL))
        mod_c = cval("StarkField", "MODULUS")
        claim("MODULUS_is_M", S.raw("eq", [intc(mod_c.t.p), intc(M)], S.BOOL))
        claim("MODULUS_BITS", S.raw("eq", [intc(cval("StarkField", "MODULUS_BITS").t.p), intc(M.bit_length())], S.BOOL))
        ta = cval("StarkField", "TWO_ADICITY").t.p
        claim("TWO_ADICITY_divides", S.raw("eq", [S.raw("imod", [intc(M - 1), intc(2 ** ta)], S.INT), intc(0)], S.BOOL))
        claim("TWO_ADICITY_maximal", S.raw("eq", [S.raw("imod", [S.raw("idiv", [intc(M - 1), intc(2 ** ta)], S.INT), intc(2)], S.INT), intc(1)], S.BOOL))
        claim("TWO_ADICITY_documented", S.raw("eq", [intc(ta), intc(k)], S.BOOL))
        g_inner = X.inner(cval("StarkField", "GENERATOR"))
        g = as_int_of(g_inner)
        w_inner = X.inner(cval("StarkField", "TWO_ADIC_ROOT_OF_UNITY"))
        w = as_int_of(w_inner)
        zero = as_int_of(X.inner(cval("FieldElement", "ZERO")))
        one = as_int_of(X.inner(cval("FieldElement", "ONE")))
        for t in (g, w, zero, one, g_inner, w_inner):
            if not S.isconst(t):
                raise NotEncodable("a constant did not evaluate to a concrete value")
        claim("ZERO", S.raw("eq", [intc(zero.p), intc(0)], S.BOOL))
        claim("ONE", S.raw("eq", [intc(one.p), intc(1)], S.BOOL))
        claim("GENERATOR_documented", S.raw("eq", [intc(g.p), intc(F["gen"])], S.BOOL))
        claim("GENERATOR_in_range", S.raw("ilt", [intc(g_inner.p), intc(F["rep"])], S.BOOL))
        claim("ROOT_in_range", S.raw("ilt", [intc(w_inner.p), intc(F["rep"])], S.BOOL))
        for p in FACTORS[fld]:
            claim(f"GENERATOR_order_not_dividing_(M-1)/{p}", S.raw("not", [S.raw("eq", [_pow_chain(g.p, (M - 1) // p, M), intc(1)], S.BOOL)], S.BOOL))
        claim("ROOT_pow_2^k_is_1", S.raw("eq", [_pow_chain(w.p, 2 ** ta, M), intc(1)], S.BOOL))
        claim("ROOT_pow_2^(k-1)_is_-1", S.raw("eq", [_pow_chain(w.p, 2 ** (ta - 1), M), intc(M - 1)], S.BOOL))
        if fld != "f64":   # f64 documents a different choice of root (so that 8 generates the domain of size 64)
            claim("ROOT_is_generator_power", S.raw("eq", [_pow_chain(g.p, (M - 1) >> ta, M), intc(w.p)], S.BOOL))
        else:
            claim("ROOT_pow_2^26_is_8", S.raw("eq", [_pow_chain(w.p, 2 ** (ta - 6), M), intc(8)], S.BOOL))
        if fld in ("f64", "f62"):
            r2 = scalar("R2")
            claim("R2_is_2^128_mod_M", S.raw("eq", [S.raw("imod", [intc(2 ** 128), intc(M)], S.INT), intc(r2)], S.BOOL))
        if fld == "f62":
            claim("R3_is_2^192_mod_M", S.raw("eq", [S.raw("imod", [intc(2 ** 192), intc(M)], S.INT), intc(scalar("R3"))], S.BOOL))
            claim("U_is_-M^-1_mod_2^64", S.raw("eq", [S.raw("imod", [S.raw("imul", [intc(scalar("U")), intc(M)], S.INT), intc(W)], S.INT), intc(W - 1)], S.BOOL))
            claim("G_is_root", S.raw("eq", [intc(scalar("G")), intc(w.p)], S.BOOL))
        if fld == "f128":
            claim("G_is_root", S.raw("eq", [intc(scalar("G")), intc(w.p)], S.BOOL))
        goal = S.raw("and", parts, S.BOOL)
        require_trivial(ex, f"{fld} constants")
        q = Query("defining_equations", [], goal, {}, encodings=("int",), locate=locate)
        # translator validation: constants as the native binary sees them
        from ..mirsmt.runner import native
        ans = native([f"{fld} const"])[0]
        if ans[0] != "ok":
            raise NotEncodable("native constant query failed")
        nat_vals = [int(x) for x in ans[1:]]
        mine = [cval("StarkField", "MODULUS_BITS").t.p, ta, g_inner.p, w_inner.p, X.inner(cval("FieldElement", "ZERO")).p, X.inner(cval("FieldElement", "ONE")).p]
        if nat_vals != mine:
            raise RuntimeError(f"TRANSLATOR MISMATCH on constants: native {nat_vals} vs MIR evaluation {mine}")
        return Built([q], short_fns(ex) + [f"{fld} consts: M, MODULUS, MODULUS_BITS, TWO_ADICITY, GENERATOR, TWO_ADIC_ROOT_OF_UNITY, ZERO, ONE, R2/R3/U/G"], [], None,
                     note=f"constants evaluated from their own MIR bodies and cross-checked natively; {len(parts)} defining equations evaluated by the solver")
    return Obligation(f"c07_{fld}_constants", "C07",
                      f"{fld}: M is the documented modulus; TWO_ADICITY = v2(M-1); GENERATOR = {F['gen']} has order M-1 (g^((M-1)/q) != 1 for every prime q | M-1); "
                      "TWO_ADIC_ROOT_OF_UNITY = g^((M-1)/2^k) has order exactly 2^k; ZERO/ONE; R2/R3/U where present",
                      "constant-only", build)


# =================================================================================================
# end-to-end attempts (thorough): compositions the portfolio may or may not decide
def ob_f64_roundtrip():
    def build(prog):
        v = _v("v", "u64")
        ex, r = run(prog, find(prog, "f64", None, "new"), [v])
        ex2, r2 = run(prog, find(prog, "f64", "StarkField", "as_int"), [r], refs=True)
        V = nat(v.t)
        goal = Eq(nat(r2.t), Ite(Le(intc(M64), V), V - M64, V))
        return Built([Query("roundtrip", [], goal)], short_fns(ex) + short_fns(ex2), [], None)
    return Obligation("c07_f64_new_as_int_roundtrip", "C07", "as_int(new(v)) = v mod M for every u64 v, as ONE query through two Montgomery reductions (attempt)",
                      "v: u64 full width", build, required=False)


# =================================================================================================
def obligations(tier):
    obs = []
    # f64
    k = ob_f64_mont_red_cst()
    obs += [k, ob_f64_mul(False, k), ob_f64_mul(True, k), ob_f64_new(k), ob_f64_as_int("inherent"), ob_f64_as_int("starkfield")]
    obs += _f64_direct()
    obs += [ob_f64_eq(), ob_f64_double_canonical(), ob_f64_mul_small_canonical(), ob_f64_mul_small_value(), ob_f64_chain("exp7", 7), ob_f64_chain("inv", M64 - 2)]
    obs += [ob_conv_from(F64, "bool", 1), ob_conv_from(F64, "u8", 8), ob_conv_from(F64, "u16", 16), ob_conv_from(F64, "u32", 32)]
    obs += [ob_try_from_int(F64, "u64"), ob_try_from_int(F64, "u128"), ob_try_from_int(F64, "usize"), ob_f64_to_int("u64"), ob_f64_to_int("u128")]
    obs += [ob_f64_try_to("u8"), ob_f64_try_to("u16"), ob_f64_try_to("u32"), ob_f64_try_to("bool")]
    obs += [ob_bytes(F64, "bytes8"), ob_bytes(F64, "slice"), ob_bytes(F64, "random")]
    obs += [ob_constants(F64)]
    # f62
    obs += [ob_f62_mul(), ob_f62_new(), ob_f62_as_int(), ob_f62_eq()] + _f62_direct()
    obs += [ob_conv_from(F62, "u8", 8), ob_conv_from(F62, "u16", 16), ob_conv_from(F62, "u32", 32), ob_f62_to_int("u64"), ob_f62_to_int("u128")]
    obs += [ob_try_from_int(F62, "u64"), ob_try_from_int(F62, "u128"), ob_bytes(F62, "bytes8"), ob_bytes(F62, "slice"), ob_bytes(F62, "random")]
    obs += [ob_constants(F62)]
    # f128
    obs += _f128_direct() + [ob_f128_new(), ob_f128_eq()]
    obs += [ob_conv_from(F128, "u8", 8), ob_conv_from(F128, "u16", 16), ob_conv_from(F128, "u32", 32), ob_conv_from(F128, "u64", 64)]
    ker = [ob_f128_kernel("mul_128x64"), ob_f128_kernel("mul_reduce"), ob_f128_kernel("sub_modulus"), ob_f128_kernel("add64_with_carry")]
    obs += ker + [ob_f128_mul_composed(ker), ob_f128_mul_generic(ker)]
    obs += [ob_f128_mul("range"), ob_try_from_int(F128, "u128"), ob_bytes(F128, "slice"), ob_bytes(F128, "random"), ob_constants(F128)]
    if tier == "thorough":
        obs += [ob_f128_mul("value"), ob_f64_roundtrip(), ob_f64_mul_direct(False), ob_f64_mul_direct(True), ob_f64_new(None, True)]
    return obs
