"""Engine M: rustc MIR text (-Zunpretty=mir) -> terms (vf.mirsmt.terms) for loop-free integer kernels.

Supported subset: integer/bool locals, tuples, fixed arrays with constant (or concretely evaluated) indices, newtype
structs, Option/Result-like enums (guarded alternatives), references to locals (frame-relative), IntToInt casts, all
binary/unary integer ops incl. *WithOverflow, `assert(..)` terminators (collected as no-panic obligations),
`switchInt`, calls inlined recursively from the callee's MIR (trait methods resolved through the `impl at file:line`
header, default trait methods with `Self` substituted), core::num intrinsics modelled natively, loops only when their
control flow is concrete under constant folding (e.g. `for r in 0..12`).  Everything else raises NotEncodable.

Abstraction modes (opt-in per Executor):
  * ring:     calls to a base field's add/sub/mul/neg/double/square/new/ZERO/ONE become ring operations over Z;
  * exponent: element -> exponent, mul -> +, square -> *2 (fixed addition chains);
  * products: a symbolic x symbolic widening multiplication is replaced by a fresh variable (recorded in
              `Executor.products`) so that the consuming reduction is proved for every product value in range.
"""
import os, re
from . import terms as S
from .terms import NotEncodable, T, BV, BOOL, INT

INT_BITS = {"u8": 8, "u16": 16, "u32": 32, "u64": 64, "u128": 128, "usize": 64,
            "i8": 8, "i16": 16, "i32": 32, "i64": 64, "i128": 128, "isize": 64}
SIGNED = {"i8", "i16", "i32", "i64", "i128", "isize"}


# =================================================================================================
# values
class Sc:
    """scalar: term + rust type name ('u64', 'bool', or 'Z' for an abstract ring element / exponent)"""
    __slots__ = ("t", "ty")

    def __init__(self, t, ty):
        self.t, self.ty = t, ty

    def __repr__(self):
        return f"Sc({self.t!r}:{self.ty})"


class Agg:
    """tuple / array / struct (positional fields)"""
    __slots__ = ("items", "kind")

    def __init__(self, items, kind="tuple"):
        self.items, self.kind = tuple(items), kind

    def __repr__(self):
        return f"Agg{self.kind}{list(self.items)}"


class Enum:
    """alts: list of (guard term, variant name, fields tuple); guards are mutually exclusive"""
    __slots__ = ("alts", "ety")

    def __init__(self, alts, ety):
        self.alts, self.ety = list(alts), ety

    def __repr__(self):
        return f"Enum{self.ety}{[(g, v) for g, v, _ in self.alts]}"


class Ref:
    __slots__ = ("frame", "local", "proj")

    def __init__(self, frame, local, proj=()):
        self.frame, self.local, self.proj = frame, local, tuple(proj)

    def __repr__(self):
        return f"Ref({self.frame},{self.local},{self.proj})"


class Opaque:
    """a value whose content is deliberately not modelled (formatted error messages). Any inspection -> NotEncodable"""
    __slots__ = ("what",)

    def __init__(self, what):
        self.what = what

    def __repr__(self):
        return f"Opaque({self.what})"


class FnItem:
    __slots__ = ("name",)

    def __init__(self, name):
        self.name = name


UNIT = Agg((), "tuple")
VARIANTS = {"Option": ["None", "Some"], "Result": ["Ok", "Err"], "ControlFlow": ["Continue", "Break"]}


def sc_int(v, ty):
    return Sc(S.bvc(INT_BITS[ty], v), ty)


def sc_bool(b):
    return Sc(S.const(BOOL, b), "bool")


# =================================================================================================
# parser
class Fn:
    def __init__(self, name, params, ret, crate):
        self.name, self.params, self.ret, self.crate = name, params, ret, crate
        self.locals = {}
        self.blocks = {}
        self.is_const = False


def split_top(s, sep=","):
    out, depth, cur = [], 0, ""
    i = 0
    in_str = False
    while i < len(s):
        ch = s[i]
        if in_str:
            cur += ch
            if ch == "\\":
                cur += s[i + 1]
                i += 1
            elif ch == '"':
                in_str = False
        else:
            if ch == '"':
                in_str = True
                cur += ch
            elif ch in "([{":
                depth += 1
                cur += ch
            elif ch in ")]}":
                depth -= 1
                cur += ch
            elif ch == "<" and not (i + 1 < len(s) and s[i + 1] in "<= "):
                depth += 1
                cur += ch
            elif ch == ">" and i > 0 and s[i - 1] not in "-=> " and depth > 0:
                depth -= 1
                cur += ch
            elif ch == sep and depth == 0:
                out.append(cur)
                cur = ""
            else:
                cur += ch
        i += 1
    if cur.strip():
        out.append(cur)
    return [x.strip() for x in out]


class Program:
    """function table of one or more MIR dumps (first dump given has priority on name clashes)"""

    def __init__(self, repo="/repo"):
        self.repo = repo
        self.fns = {}       # name -> Fn (runtime bodies); first dump loaded wins on clashes, see crate_fns
        self.consts = {}    # name -> (value, ty) scalar consts
        self.cbody = {}     # name -> Fn (const items with a body)
        self.crate_fns = {}     # crate -> {name -> Fn}: rustc trims paths per crate, so names are only unique per dump
        self.crate_consts = {}  # crate -> {name -> (value, ty) | Fn}
        self.impls = {}     # (file, line, col) -> header dict
        self._src = {}
        self._impl_index = None

    def load(self, path, crate):
        cur = None
        bb = None
        skip_next_fn = False
        in_alloc = False
        cf = self.crate_fns.setdefault(crate, {})
        cc = self.crate_consts.setdefault(crate, {})
        with open(path) as f:
            for line in f:
                line = line.rstrip("\n")
                if in_alloc:
                    if line == "}":
                        in_alloc = False
                    continue
                if line.startswith("// MIR FOR CTFE"):
                    skip_next_fn = True
                    continue
                if cur is None:
                    if re.match(r"^alloc\d+ \(", line):
                        in_alloc = not line.endswith("{}")
                        continue
                    m = re.match(r"^(?:const|static(?: mut)?) (.+)$", line)
                    if m and not line.startswith("const fn "):
                        rest = m.group(1)
                        k = top_find(rest, ": ")
                        if k < 0:
                            continue
                        cname, tail = rest[:k], rest[k + 2:]
                        mm = re.match(r"^(.+?) = const (-?\d+)_(\w+);$", tail)
                        if mm:
                            self.consts.setdefault(cname, (int(mm.group(2)), mm.group(3)))
                            cc.setdefault(cname, (int(mm.group(2)), mm.group(3)))
                            continue
                        mm = re.match(r"^(.+?) = const (true|false);$", tail)
                        if mm:
                            self.consts.setdefault(cname, (mm.group(2) == "true", "bool"))
                            cc.setdefault(cname, (mm.group(2) == "true", "bool"))
                            continue
                        mm = re.match(r"^(.+) = \{$", tail)
                        if mm:
                            fn = Fn(cname, [], mm.group(1).strip(), crate)
                            fn.is_const = True
                            if cname in cc:
                                fn = Fn("__dup__", [], "", crate)
                            else:
                                cc[cname] = fn
                                self.cbody.setdefault(cname, fn)
                            cur, bb = fn, None
                        continue
                    m = re.match(r"^(?:const )?fn (.+?)\((.*)\) -> (.+) \{$", line)
                    if m:
                        name = m.group(1)
                        params = []
                        for p in split_top(m.group(2)):
                            if p:
                                pn, pt = p.split(":", 1)
                                params.append((pn.strip(), pt.strip()))
                        fn = Fn(name, params, m.group(3).strip(), crate)
                        for pn, pt in params:
                            fn.locals[pn] = pt
                        if skip_next_fn or name in cf:
                            skip_next_fn = False
                            fn.name = "__dup__"
                        else:
                            cf[name] = fn
                            self.fns.setdefault(name, fn)
                        cur, bb = fn, None
                        continue
                    continue
                if line == "}":
                    cur = None
                    continue
                m = re.match(r"^\s+let (?:mut )?(_\d+): (.+);$", line)
                if m:
                    cur.locals[m.group(1)] = m.group(2)
                    continue
                m = re.match(r"^\s+(bb\d+)(?: \(cleanup\))?: \{$", line)
                if m:
                    bb = m.group(1)
                    cur.blocks[bb] = []
                    continue
                s = line.strip()
                if bb and s and s != "}" and not s.startswith(("debug ", "scope ", "let ")):
                    cur.blocks[bb].append(s)
        self._impl_index = None
        return self

    def fn(self, name, crate=None):
        """function by printed name, looked up in `crate`'s dump first"""
        if crate and name in self.crate_fns.get(crate, {}):
            return self.crate_fns[crate][name]
        return self.fns.get(name)

    def lookup_const(self, path, crate=None):
        """const item by the path printed at a USE site (uses print full paths, definitions trimmed ones):
        exact name, else the unique longest definition name that is a `::`-suffix of the path. -> (name, crate) | None"""
        order = ([crate] if crate else []) + [c for c in self.crate_consts if c != crate]
        for c in order:
            tab = self.crate_consts.get(c, {})
            if path in tab:
                return path, c
        for c in order:
            tab = self.crate_consts.get(c, {})
            cands = [n for n in tab if path.endswith("::" + n)]
            if cands:
                best = max(cands, key=len)
                if sum(1 for n in cands if len(n) == len(best)) == 1:
                    return best, c
                raise NotEncodable("ambiguous const " + path)
        return None

    # ---- impl headers ------------------------------------------------------------------------------
    def _source_line(self, file, line):
        if file not in self._src:
            p = os.path.join(self.repo, file)
            try:
                with open(p) as f:
                    self._src[file] = f.read().split("\n")
            except OSError:
                self._src[file] = None
        src = self._src[file]
        if src is None or line - 1 >= len(src):
            return None
        return src[line - 1]

    def impl_header(self, fname):
        """{'file','field','trait','targs','type','method'} for `...<impl at FILE:L:C: L2:C2>::method`"""
        m = re.search(r"<impl at ([^:>]+):(\d+):(\d+): (\d+):(\d+)>::(.+)$", fname)
        if not m:
            return None
        file, l1, c1, l2, c2, meth = m.group(1), int(m.group(2)), int(m.group(3)), int(m.group(4)), int(m.group(5)), m.group(6)
        src = self._source_line(file, l1)
        if src is None:
            return None
        text = src[c1 - 1:c2 - 1] if l1 == l2 else src[c1 - 1:]
        fm = re.search(r"field/(f62|f64|f128)/", file)
        h = {"file": file, "field": fm.group(1) if fm else None, "method": meth, "text": text, "trait": None, "targs": None, "type": None}
        mm = None
        t2 = text.strip()
        if t2.startswith("unsafe "):
            t2 = t2[7:].strip()
        if t2.startswith("impl"):
            rest = t2[4:].lstrip()
            if rest.startswith("<"):
                d = 0
                for i, ch in enumerate(rest):
                    if ch == "<":
                        d += 1
                    elif ch == ">":
                        d -= 1
                        if d == 0:
                            rest = rest[i + 1:].strip()
                            break
            rest = re.sub(r"\s*\{?\s*$", "", rest)
            rest = re.split(r"\s+where\s+", rest)[0]
            k = top_find(rest, " for ")
            mm = (rest[:k].strip(), rest[k + 5:].strip()) if k >= 0 else (None, rest.strip())
        if mm:
            tr, ty = mm
            if tr:
                tm = re.match(r"^([\w:]+?)(?:<(.*)>)?$", tr.strip())
                h["trait"] = tm.group(1).split("::")[-1] if tm else tr
                h["targs"] = lastseg(tm.group(2)) if tm and tm.group(2) else None
            h["type"] = lastseg(ty.strip())
        else:
            # #[derive(..)] span: the text is the derived trait name
            h["trait"] = text.strip()
            h["type"] = "BaseElement" if h["field"] else None
        return h

    def impl_index(self):
        if self._impl_index is None:
            idx = []
            for name, fn in list(self.fns.items()) + list(self.cbody.items()):
                if "<impl at " in name:
                    h = self.impl_header(name)
                    if h:
                        idx.append((h, name))
            self._impl_index = idx
        return self._impl_index

    def find(self, field, trait, method, targs=None, type_="BaseElement", consts=False):
        """look up the MIR name of `impl <trait><targs> for <type>`'s `method` in the file of `field`"""
        hits = []
        for h, name in self.impl_index():
            if h["method"] != method or h["field"] != field:
                continue
            if (name in self.cbody) != consts:
                continue
            if h["trait"] != trait or (type_ is not None and h["type"] != type_):
                continue
            if targs is not None and (h["targs"] or "") .replace(" ", "") != targs.replace(" ", ""):
                continue
            hits.append(name)
        if len(hits) == 1:
            return hits[0]
        if not hits:
            return None
        raise NotEncodable(f"ambiguous impl lookup {field} {trait}<{targs}> for {type_}::{method}: {hits}")


def lastseg(s):
    """`a::b::C<d::E>` -> `C<E>` (keeps generic structure, drops module paths and lifetimes)"""
    if s is None:
        return None
    s = re.sub(r"'\w+\s*,?\s*", "", s)
    return re.sub(r"(?:\w+::)+(?=\w)", "", s).strip()


def field_of(s):
    m = re.search(r"\bf(62|64|128)::", s)
    return "f" + m.group(1) if m else None


# =================================================================================================
# places
def parse_place(s):
    """-> (local, [proj...]) with proj in ('deref',) ('field', i) ('index', local) ('cindex', i) ('downcast', name)"""
    s = s.strip()
    m = re.match(r"^(.*)\[([^\[\]]+)\]$", s)
    if m and balanced(m.group(1)) and m.group(1):
        base, projs = parse_place(m.group(1))
        ix = m.group(2).strip()
        mm = re.match(r"^(\d+) of (\d+)$", ix)
        if mm:
            return base, projs + [("cindex", int(mm.group(1)))]
        mm = re.match(r"^-(\d+) of (\d+)$", ix)
        if mm:
            return base, projs + [("cindex", int(mm.group(2)) - int(mm.group(1)))]
        if re.match(r"^_\d+$", ix):
            return base, projs + [("index", ix)]
        raise NotEncodable("place index " + s)
    if s.startswith("(") and s.endswith(")") and matching(s, 0) == len(s) - 1:
        inner = s[1:-1].strip()
        if inner.startswith("*"):
            base, projs = parse_place(inner[1:])
            return base, projs + [("deref",)]
        # downcast: (P as Variant)
        k = top_find(inner, " as ")
        if k >= 0 and re.match(r"^\w+$", inner[k + 4:].strip()):
            base, projs = parse_place(inner[:k])
            return base, projs + [("downcast", inner[k + 4:].strip())]
        # field: P.N: type
        best = None
        depth = 0
        for i, ch in enumerate(inner):
            if ch in "([{":
                depth += 1
            elif ch in ")]}":
                depth -= 1
            elif ch == "." and depth == 0:
                mm = re.match(r"^\.(\d+): ", inner[i:])
                if mm:
                    best = (i, int(mm.group(1)))
                    break
        if best:
            base, projs = parse_place(inner[:best[0]])
            return base, projs + [("field", best[1])]
        raise NotEncodable("place " + s)
    if re.match(r"^_\d+$", s):
        return s, []
    raise NotEncodable("place " + s)


def balanced(s):
    d = 0
    for ch in s:
        if ch in "([{":
            d += 1
        elif ch in ")]}":
            d -= 1
            if d < 0:
                return False
    return d == 0


def matching(s, i):
    d = 0
    for j in range(i, len(s)):
        if s[j] in "([{":
            d += 1
        elif s[j] in ")]}":
            d -= 1
            if d == 0:
                return j
    return -1


def top_find(s, needle):
    d = 0
    for i, ch in enumerate(s):
        if ch in "([{<":
            d += 1
        elif ch in ")]}>":
            d -= 1
        elif d == 0 and s.startswith(needle, i):
            return i
    return -1


# =================================================================================================
class Frame:
    __slots__ = ("fn", "env", "subst", "gargs")

    def __init__(self, fn, env, subst=None, gargs=None):
        self.fn, self.env, self.subst, self.gargs = fn, env, subst or {}, gargs or []

    def copy(self):
        return Frame(self.fn, dict(self.env), self.subst, self.gargs)


class State:
    __slots__ = ("frames", "pc")

    def __init__(self, frames, pc):
        self.frames, self.pc = frames, tuple(pc)

    def copy(self):
        return State([f.copy() for f in self.frames], self.pc)

    def cond(self):
        return S.And(*self.pc)


class Panic(Exception):
    pass


RING_OPS = {
    ("Add", "add"): lambda a, b: a + b, ("Sub", "sub"): lambda a, b: a - b, ("Mul", "mul"): lambda a, b: a * b,
    ("Neg", "neg"): lambda a: -a, ("FieldElement", "double"): lambda a: 2 * a, ("FieldElement", "square"): lambda a: a * a,
    ("FieldElement", "cube"): lambda a: a * a * a,
}
EXP_OPS = {
    ("Mul", "mul"): lambda a, b: a + b, ("FieldElement", "square"): lambda a: 2 * a, ("FieldElement", "cube"): lambda a: 3 * a,
}


class Executor:
    def __init__(self, prog, mode="exact", field=None, abstract_products=False, summaries=None, fuel=400000):
        """mode: 'exact' | 'ring' | 'exponent'. field: which base field is abstracted in ring/exponent mode."""
        self.prog = prog
        self.mode = mode
        self.field = field
        self.abstract_products = abstract_products
        self.summaries = summaries or {}
        self.obligations = []   # (pc tuple, cond term, message, function name)
        self.products = []      # (a term, b term, fresh var term, bits)
        self.assumptions = []   # facts introduced by abstractions (term)
        self.encoded = []       # names of repo functions whose MIR was executed
        self.abstracted = []    # names of calls replaced by ring/exponent/summary
        self.fuel = fuel
        self.watch = set()      # MIR names whose calls are recorded in self.calls as (name, args, ret, pc at the call)
        self.calls = []
        self._fresh = 0
        self._cache = {}

    # ---- helpers -----------------------------------------------------------------------------------
    def fresh(self, prefix, sort):
        self._fresh += 1
        return S.var(f"{prefix}{self._fresh}", sort)

    def note_fn(self, name):
        if name not in self.encoded:
            self.encoded.append(name)

    # ---- top level ----------------------------------------------------------------------------------
    def call_fn(self, name, args, pc=(), crate=None):
        """execute function `name` (exact MIR name) on argument values. returns the (merged) return value.
        No-panic obligations accumulate in self.obligations."""
        fn = self.prog.fn(name, crate)
        if fn is None:
            raise NotEncodable("no MIR body for " + name)
        st = State([], pc)
        st, ret = self._invoke(st, fn, args, {}, [])
        if st is None:
            raise NotEncodable(f"{name}: every path panics")
        self.final_pc = st.pc
        return ret

    def eval_const(self, name, crate=None):
        """evaluate a const item (scalar, or with a body such as <impl ..>::ZERO = new(0)) on the real MIR"""
        hit = self.prog.lookup_const(name, crate)
        if hit is None:
            raise NotEncodable("unknown const " + name)
        name, crate = hit
        if (crate, name) in self._cache:
            return self._cache[(crate, name)]
        item = self.prog.crate_consts[crate][name]
        if isinstance(item, tuple):
            v, ty = item
            r = sc_bool(v) if ty == "bool" else sc_int(v, ty)
        else:
            st = State([], ())
            st, r = self._invoke(st, item, [], {}, [])
            if st is None:
                raise NotEncodable("const " + name + " panics")
        self._cache[(crate, name)] = r
        return r

    # ---- invocation: blocks are scheduled in reverse post-order and states meeting at a block are merged -------------
    def _rpo(self, fn):
        if hasattr(fn, "_rpo"):
            return fn._rpo
        succ = {}
        for bb, stmts in fn.blocks.items():
            term = stmts[-1] if stmts else ""
            succ[bb] = re.findall(r"\bbb\d+\b", term.split(" -> ", 1)[1]) if " -> " in term else []
        order, seen = [], set()
        stack = [("bb0", iter(succ.get("bb0", [])))]
        seen.add("bb0")
        while stack:
            node, it = stack[-1]
            nxt = next(it, None)
            if nxt is None:
                order.append(node)
                stack.pop()
            elif nxt not in seen and nxt in succ:
                seen.add(nxt)
                stack.append((nxt, iter(succ[nxt])))
        fn._rpo = {bb: i for i, bb in enumerate(reversed(order))}
        return fn._rpo

    def _merge(self, items, nframes, rets=None):
        """items: list of (State, visits). merges the first `nframes` frames. -> (State, visits, merged ret)"""
        if len(items) == 1:
            s, v = items[0]
            return State(s.frames[:nframes], s.pc), v, (rets[0] if rets else None)
        common = list(items[0][0].pc)
        for s, _ in items[1:]:
            j = 0
            while j < len(common) and j < len(s.pc) and common[j] is s.pc[j]:
                j += 1
            common = common[:j]
        k = len(common)
        guards = [S.And(*s.pc[k:]) for s, _ in items]
        ret = merge_values(guards, rets) if rets else None
        frames = []
        for d in range(nframes):
            envs = [s.frames[d].env for s, _ in items]
            keys = set(envs[0])
            for e in envs[1:]:
                keys &= set(e)
            new = {}
            for key in keys:
                vals = [e[key] for e in envs]
                if all(v is vals[0] for v in vals):
                    new[key] = vals[0]
                else:
                    try:
                        new[key] = merge_values(guards, vals)
                    except NotEncodable:
                        pass    # a dead temporary that differs: reading it later fails loudly (NotEncodable)
            f0 = items[0][0].frames[d]
            frames.append(Frame(f0.fn, new, f0.subst, f0.gargs))
        rest = S.Or(*guards)
        pc = tuple(common) + (() if rest is S.TRUE else (rest,))
        visits = {}
        for _, v in items:
            for bb, n in v.items():
                visits[bb] = max(visits.get(bb, 0), n)
        return State(frames, pc), visits, ret

    def _invoke(self, st, fn, args, subst, gargs):
        if len(st.frames) > 60:
            raise NotEncodable("call depth")
        if len(args) != len(fn.params):
            raise NotEncodable(f"{fn.name}: arity {len(args)} vs {len(fn.params)}")
        self.note_fn(fn.name)
        env = {pn: a for (pn, _), a in zip(fn.params, args)}
        depth = len(st.frames)
        st = State([f for f in st.frames] + [Frame(fn, env, subst, gargs)], st.pc)
        order = self._rpo(fn)
        pending = {"bb0": [(st, {})]}
        done = []
        while pending:
            bb = min(pending, key=lambda b: order.get(b, 1 << 30))
            items = pending.pop(bb)
            if len(items) > 1:
                s, v, _ = self._merge(items, depth + 1)
                items = [(s, v)]
            for s, visits in items:
                for kind, s2, x, v2 in self._run_block(s, bb, visits, depth):
                    if kind == "ret":
                        done.append(((s2, v2), x))
                    else:
                        pending.setdefault(x, []).append((s2, v2))
        if not done:
            return None, None
        s, _, ret = self._merge([d[0] for d in done], depth, [d[1] for d in done])
        return s, ret

    def _run_block(self, st, bb, visits, depth):
        """execute one basic block. -> list of ('go', state, next bb, visits) / ('ret', state, value, visits)"""
        fn = st.frames[depth].fn
        self.fuel -= 1
        if self.fuel <= 0:
            raise NotEncodable("fuel exhausted (loop?)")
        visits = dict(visits)
        visits[bb] = visits.get(bb, 0) + 1
        if bb not in fn.blocks:
            raise NotEncodable(f"{fn.name}: no block {bb}")
        for st_txt in fn.blocks[bb]:
            r = self._stmt(st, depth, st_txt, bb, visits)
            if r is None:
                continue
            kind = r[0]
            if kind == "goto":
                return [("go", st, r[1], visits)]
            if kind == "ret":
                return [("ret", st, r[1], visits)]
            if kind == "dead":
                return []
            if kind == "fork":
                outs = []
                for cond, tgt in r[1]:
                    s2 = st.copy()
                    s2.pc = s2.pc + (cond,)
                    outs.append(("go", s2, tgt, visits))
                return outs
            if kind == "state":     # a call returned a new state object
                return [("go", r[1], r[2], visits)]
            raise AssertionError(kind)
        raise NotEncodable(f"{fn.name}: fell off {bb}")

    # ---- statements ---------------------------------------------------------------------------------------
    def _stmt(self, st, depth, s, bb, visits):
        fr = st.frames[depth]
        fn = fr.fn
        if s.startswith(("StorageLive", "StorageDead", "ConstEvalCounter", "nop", "FakeRead", "PlaceMention", "AscribeUserType", "Coverage", "Retag")):
            return None
        if s == "return;":
            if "_0" not in fr.env:
                if fn.ret.strip() == "()":
                    return ("ret", UNIT)
                raise NotEncodable(f"{fn.name}: return without value")
            return ("ret", fr.env["_0"])
        if s == "unreachable;":
            return ("dead",)
        if s == "resume;":
            return ("dead",)
        m = re.match(r"^goto -> (bb\d+);$", s)
        if m:
            return ("goto", m.group(1))
        m = re.match(r"^drop\(.*\) -> \[return: (bb\d+), unwind[^\]]*\];$", s)
        if m:
            return ("goto", m.group(1))
        if s.startswith("assert("):
            m = re.match(r"^assert\((!?)(.+?), \"(.*?)\"(?:, .*)?\) -> \[success: (bb\d+), unwind[^\]]*\];$", s)
            if not m:
                raise NotEncodable(f"{fn.name}: {s}")
            c = self._operand(st, depth, m.group(2))
            if not isinstance(c, Sc) or c.ty != "bool":
                raise NotEncodable("assert on non-bool")
            cond = S.Not(c.t) if m.group(1) else c.t
            if cond is not S.TRUE:
                self.obligations.append((st.pc, cond, m.group(3), fn.name))
                if cond is S.FALSE:
                    return ("dead",)
                st.pc = st.pc + (cond,)
            return ("goto", m.group(4))
        if s.startswith("switchInt("):
            m = re.match(r"^switchInt\((.+)\) -> \[(.*)\];$", s)
            v = self._operand(st, depth, m.group(1))
            if not isinstance(v, Sc):
                raise NotEncodable("switchInt on aggregate")
            arms = []
            taken = []
            for arm in split_top(m.group(2)):
                k, tgt = arm.split(": ")
                k = k.strip()
                if k == "otherwise":
                    cond = S.And(*[S.Not(t) for t in taken])
                else:
                    kv = int(k)
                    if v.ty == "bool":
                        cond = v.t if kv != 0 else S.Not(v.t)
                    else:
                        cond = S.Eq(v.t, S.bvc(v.t.sort[1], kv))
                    taken.append(cond)
                arms.append((cond, tgt.strip()))
            live = [(c, t) for c, t in arms if c is not S.FALSE]
            for c, t in live:
                if c is S.TRUE:
                    return ("goto", t)
            if not live:
                return ("dead",)
            if len(live) == 1:      # other arms folded to false: the remaining one carries its condition
                pass
            if visits.get(bb, 0) > 1:
                raise NotEncodable(f"{fn.name}: loop with a symbolic condition at {bb}")
            return ("fork", live)
        # calls
        if " -> [return: " in s or re.search(r"\) -> unwind \w+;$", s):
            return self._call_stmt(st, depth, s)
        m = re.match(r"^(.+?) = (.+);$", s)
        if m:
            val = self._rvalue(st, depth, m.group(2))
            self._assign(st, depth, m.group(1), val)
            return None
        raise NotEncodable(f"{fn.name}: unsupported statement `{s}`")

    # ---- places -----------------------------------------------------------------------------------------------
    def _resolve(self, st, depth, place_s):
        """-> (frame index, local, concrete projection list without derefs)"""
        base, projs = parse_place(place_s) if isinstance(place_s, str) else place_s
        fi, local, out = depth, base, []
        for p in projs:
            if p[0] == "deref":
                v = self._read(st, fi, local, out)
                if not isinstance(v, Ref):
                    raise NotEncodable(f"deref of non-reference {v!r}")
                fi, local, out = v.frame, v.local, list(v.proj)
            elif p[0] == "index":
                iv = st.frames[depth].env.get(p[1])
                if not isinstance(iv, Sc) or not S.isconst(iv.t):
                    raise NotEncodable("array index is not a concrete value")
                out.append(("cindex", iv.t.p))
            else:
                out.append(p)
        return fi, local, out

    def _read(self, st, fi, local, projs):
        env = st.frames[fi].env
        if local not in env:
            raise NotEncodable(f"{st.frames[fi].fn.name}: read of uninitialised/merged-away local {local}")
        v = env[local]
        for p in projs:
            v = self._project(v, p)
        return v

    def _project(self, v, p):
        if isinstance(v, Opaque):
            raise NotEncodable("projection into an opaque value " + v.what)
        if p[0] in ("field", "cindex"):
            if isinstance(v, Agg):
                if p[1] >= len(v.items):
                    raise NotEncodable("projection out of range")
                return v.items[p[1]]
            if isinstance(v, Sc) and v.ty == "Z" and p == ("field", 0):
                raise NotEncodable("abstract ring element inspected (.0)")
            raise NotEncodable(f"projection {p} on {v!r}")
        if p[0] == "downcast":
            if not isinstance(v, Enum):
                raise NotEncodable("downcast on non-enum")
            hits = [a for a in v.alts if a[1] == p[1]]
            if len(hits) != 1:
                raise NotEncodable("downcast: variant not (uniquely) present: " + p[1])
            return Agg(hits[0][2], "variant")
        raise NotEncodable(f"projection {p}")

    def _update(self, v, projs, new, local_ty=None):
        if not projs:
            return new
        p = projs[0]
        if p[0] in ("field", "cindex"):
            if not isinstance(v, Agg):
                raise NotEncodable(f"partial assignment into non-aggregate {v!r}")
            items = list(v.items)
            if p[1] >= len(items):
                raise NotEncodable("assignment out of range")
            items[p[1]] = self._update(items[p[1]], projs[1:], new)
            return Agg(items, v.kind)
        raise NotEncodable(f"assignment through {p}")

    def _assign(self, st, depth, place_s, val):
        fi, local, projs = self._resolve(st, depth, place_s)
        env = st.frames[fi].env
        if not projs:
            env[local] = val
            return
        if local not in env:
            # partial initialisation of a tuple local: build a skeleton from the declared type
            ty = st.frames[fi].fn.locals.get(local, "")
            skel = self._skeleton(ty)
            if skel is None:
                raise NotEncodable(f"partial assignment to uninitialised {local}: {ty}")
            env[local] = skel
        env[local] = self._update(env[local], projs, val)

    def _skeleton(self, ty):
        ty = ty.strip()
        if ty.startswith("(") and ty.endswith(")"):
            parts = split_top(ty[1:-1])
            return Agg([None] * len(parts), "tuple")
        return None

    # ---- operands / rvalues ---------------------------------------------------------------------------------------
    def _operand(self, st, depth, s):
        s = s.strip()
        if s.startswith(("copy ", "move ")):
            fi, local, projs = self._resolve(st, depth, s[5:])
            v = self._read(st, fi, local, projs)
            if v is None:
                raise NotEncodable("read of uninitialised field")
            return v
        if s.startswith("const "):
            return self._const(st, depth, s[6:].strip())
        if re.match(r"^[A-Za-z<][\w:<>, \[\];&'()+-]*$", s) and not s.startswith("_"):
            return FnItem(s)     # a function item used as a value (zero-sized)
        raise NotEncodable("operand " + s)

    def _const(self, st, depth, c):
        fr = st.frames[depth]
        m = re.match(r"^(-?\d+)_(\w+)$", c)
        if m and m.group(2) in INT_BITS:
            return sc_int(int(m.group(1)), m.group(2))
        if c in ("true", "false"):
            return sc_bool(c == "true")
        if c == "()":
            return UNIT
        m = re.match(r"^(\w+)::(MAX|MIN)$", c)
        if m and m.group(1) in INT_BITS:
            n, ty = INT_BITS[m.group(1)], m.group(1)
            if ty in SIGNED:
                return sc_int((1 << (n - 1)) - 1 if m.group(2) == "MAX" else -(1 << (n - 1)), ty)
            return sc_int((1 << n) - 1 if m.group(2) == "MAX" else 0, ty)
        if c.startswith(('b"', '"')):
            return Opaque("string literal")
        if c.startswith("ZeroSized: "):
            return Opaque("zero-sized value " + c[11:40])
        if "::promoted[" in c:
            return Opaque("promoted constant (only used by message formatting)")
        for k, v in fr.subst.items():
            c = re.sub(r"(?<![\w:])" + re.escape(k) + r"(?![\w])", v, c)
        if re.match(r"^[A-Z]\w*$", c):        # const generic parameter
            nums = [g for g in fr.gargs if re.match(r"^\d+$", g)]
            if len(nums) == 1:
                return sc_int(int(nums[0]), "usize")
            raise NotEncodable("unresolved const generic " + c)
        if re.match(r"^\d+$", c):
            return sc_int(int(c), "usize")
        m = re.match(r"^(.+)::<.*>::None$", c) or re.match(r"^(Option)::None$", c)
        if m and lastseg(m.group(1)).startswith("Option"):
            return Enum([(S.TRUE, "None", ())], "Option")
        # associated const of a trait impl
        m = re.match(r"^<(.+) as (.+?)>::(\w+)$", c)
        if m:
            ty, tr, nm = m.group(1), lastseg(m.group(2)), m.group(3)
            fld = field_of(ty + "::")
            if fld and self.mode in ("ring", "exponent") and fld == self.field and nm in ("ZERO", "ONE"):
                if self.mode == "exponent":
                    raise NotEncodable("exponent abstraction: constant " + nm)
                self.abstracted.append(f"{fld}::{nm}")
                return Sc(S.intc(0 if nm == "ZERO" else 1), "Z")
            tm = re.match(r"^(\w+)(?:<(.*)>)?$", tr)
            name = self.prog.find(fld, tm.group(1), nm, targs=tm.group(2), consts=True) if fld else None
            if name is None and fld:
                # scalar associated consts are printed as plain `const NAME: ty = const v;`
                for h, n2 in []:
                    pass
                for cname in self.prog.consts:
                    if cname.endswith("::" + nm) and "<impl at " in cname:
                        h = self.prog.impl_header(cname)
                        if h and h["field"] == fld and h["trait"] == tm.group(1):
                            name = cname
                            break
            if name is None:
                raise NotEncodable("associated const " + c)
            return self.eval_const(name)
        if self.prog.lookup_const(c, fr.fn.crate) is not None:
            return self.eval_const(c, fr.fn.crate)
        # fn items used as values
        if re.match(r"^[\w:<>, ]+$", c) and ("::" in c):
            return FnItem(c)
        raise NotEncodable("const " + c)

    def _rvalue(self, st, depth, r):
        r = r.strip()
        fr = st.frames[depth]
        m = re.match(r"^(.+) as ([\w:]+) \((\w+)(?:\(.*\))?\)$", r)
        if m and m.group(3) == "IntToInt":
            v = self._operand(st, depth, m.group(1))
            return self.cast(v, m.group(2))
        if m and m.group(3) == "PointerCoercion" and "Unsize" in r:
            return self._operand(st, depth, m.group(1))
        if m:
            raise NotEncodable("cast kind " + m.group(3))
        m = re.match(r"^(\w+)\((.*)\)$", r)
        if m and m.group(1) in BINOPS:
            parts = split_top(m.group(2))
            if len(parts) != 2:
                raise NotEncodable("binop arity " + r)
            return self.binop(m.group(1), self._operand(st, depth, parts[0]), self._operand(st, depth, parts[1]))
        if m and m.group(1) in ("Not", "Neg"):
            v = self._operand(st, depth, m.group(2))
            if not isinstance(v, Sc):
                raise NotEncodable("unary op on aggregate")
            if m.group(1) == "Not":
                return Sc(S.Not(v.t), "bool") if v.ty == "bool" else Sc(S.bvnot(v.t), v.ty)
            if v.ty not in SIGNED:
                raise NotEncodable("Neg on " + v.ty)
            return Sc(S.bvneg(v.t), v.ty)
        if m and m.group(1) == "discriminant":
            fi, local, projs = self._resolve(st, depth, m.group(2))
            v = self._read(st, fi, local, projs)
            if not isinstance(v, Enum) or v.ety not in VARIANTS:
                raise NotEncodable("discriminant of " + repr(v))
            out = None
            for g, vn, _ in reversed(v.alts):
                k = S.bvc(64, VARIANTS[v.ety].index(vn))
                out = k if out is None else S.Ite(g, k, out)
            return Sc(out, "isize")
        if m and m.group(1) in ("PtrMetadata", "Len"):
            arg = m.group(2)
            v = self._operand(st, depth, arg) if arg.startswith(("copy ", "move ")) else self._read(st, *self._resolve(st, depth, arg))
            if isinstance(v, Ref):
                v = self._read(st, v.frame, v.local, v.proj)
            if isinstance(v, Agg) and v.kind in ("array", "slice"):
                return sc_int(len(v.items), "usize")
            raise NotEncodable("length of " + repr(v))
        if r.startswith("&"):
            mm = re.match(r"^&(?:mut |raw const |raw mut )?(.+)$", r)
            if r.startswith("&raw"):
                raise NotEncodable("raw pointer")
            fi, local, projs = self._resolve(st, depth, mm.group(1))
            return Ref(fi, local, projs)
        if r.startswith("no_retag "):
            r = r[9:]
        if r.startswith(("copy ", "move ", "const ")):
            return self._operand(st, depth, r)
        if r.startswith("[") and r.endswith("]"):
            inner = r[1:-1]
            k = top_find(inner, "; ")
            if k >= 0:
                v = self._operand(st, depth, inner[:k])
                cnt = self._const(st, depth, inner[k + 2:].strip()) if not inner[k + 2:].strip().startswith("const") else self._operand(st, depth, inner[k + 2:])
                if not (isinstance(cnt, Sc) and S.isconst(cnt.t)):
                    raise NotEncodable("array repeat count")
                return Agg([v] * cnt.t.p, "array")
            return Agg([self._operand(st, depth, x) for x in split_top(inner)], "array")
        if r.startswith("(") and r.endswith(")") and matching(r, 0) == len(r) - 1:
            inner = r[1:-1].strip()
            if inner.endswith(","):
                inner = inner[:-1]
            return Agg([self._operand(st, depth, x) for x in split_top(inner)], "tuple")
        # struct literal with named fields:  Path { a: x, b: y }
        m = re.match(r"^([\w:<>, ]+?) \{ (.*) \}$", r)
        if m:
            fields = [x.split(": ", 1) for x in split_top(m.group(2))]
            return Agg([self._operand(st, depth, x[1]) for x in fields], "struct:" + lastseg(m.group(1)))
        # tuple-struct / enum-variant constructor
        m = re.match(r"^([\w:<>, '&\[\];()]+?)\((.*)\)$", r)
        if m and matching(r, len(m.group(1))) == len(r) - 1:
            path = m.group(1)
            args = [self._operand(st, depth, x) for x in split_top(m.group(2))]
            return self.construct(path, args)
        raise NotEncodable(f"{fr.fn.name}: rvalue `{r}`")

    def construct(self, path, args):
        p = re.sub(r"::<.*?>(?=::|$)", "", path)
        segs = p.split("::")
        last = segs[-1]
        if len(segs) >= 2 and segs[-2] in VARIANTS and last in VARIANTS[segs[-2]]:
            if last == "Err":
                args = [Opaque("error payload")]      # error contents (formatted strings) are not modelled
            return Enum([(S.TRUE, last, tuple(args))], segs[-2])
        if last in ("InvalidValue", "UnknownError", "UnexpectedEOF"):
            return Opaque("error value " + last)
        if len(segs) >= 2 and segs[-2] in ("DeserializationError",):
            return Opaque("error value " + last)
        if last == "BaseElement" and self.mode in ("ring", "exponent") and field_of(path + "::") == self.field:
            raise NotEncodable("abstract mode: raw construction of a base element")
        return Agg(args, "struct:" + last)

    # ---- scalar operations -------------------------------------------------------------------------------------------
    def cast(self, v, to):
        if not isinstance(v, Sc):
            raise NotEncodable("cast of aggregate")
        if to not in INT_BITS:
            raise NotEncodable("cast to " + to)
        tb = INT_BITS[to]
        if v.ty == "bool":
            return Sc(S.Ite(v.t, S.bvc(tb, 1), S.bvc(tb, 0)), to)
        if v.ty not in INT_BITS:
            raise NotEncodable("cast from " + v.ty)
        fb = INT_BITS[v.ty]
        if tb == fb:
            return Sc(v.t, to)
        if tb < fb:
            return Sc(S.trunc(v.t, tb), to)
        return Sc(S.sext(v.t, tb) if v.ty in SIGNED else S.zext(v.t, tb), to)

    def binop(self, op, x, y):
        if not (isinstance(x, Sc) and isinstance(y, Sc)):
            raise NotEncodable(f"{op} on non-scalars")
        if x.ty == "Z" or y.ty == "Z":
            raise NotEncodable("machine operation on an abstract ring element")
        if x.ty == "bool":
            if y.ty != "bool":
                raise NotEncodable("bool/int mix")
            f = {"BitAnd": S.And, "BitOr": S.Or, "Eq": S.Eq, "Ne": S.Ne, "BitXor": lambda a, b: S.Ne(a, b)}.get(op)
            if not f:
                raise NotEncodable(op + " on bool")
            return Sc(f(x.t, y.t), "bool")
        n = INT_BITS[x.ty]
        sg = x.ty in SIGNED
        if op in ("Shl", "Shr", "ShlUnchecked", "ShrUnchecked"):
            amt = y.t
            m = amt.sort[1]
            amt = S.trunc(amt, n) if m > n else S.zext(amt, n)   # the amount is non-negative after the preceding assert
            amt = S.bvand(amt, S.bvc(n, n - 1))                  # MIR Shl/Shr mask the amount
            if op.startswith("Shl"):
                return Sc(S.bvshl(x.t, amt), x.ty)
            return Sc(S.bvashr(x.t, amt) if sg else S.bvlshr(x.t, amt), x.ty)
        if x.ty != y.ty:
            raise NotEncodable(f"{op}: operand types {x.ty} vs {y.ty}")
        a, b = x.t, y.t
        if op in ("Add", "AddUnchecked"): return Sc(S.bvadd(a, b), x.ty)
        if op in ("Sub", "SubUnchecked"): return Sc(S.bvsub(a, b), x.ty)
        if op in ("Mul", "MulUnchecked"): return Sc(self.mul(a, b, x.ty), x.ty)
        if op == "BitAnd": return Sc(S.bvand(a, b), x.ty)
        if op == "BitOr": return Sc(S.bvor(a, b), x.ty)
        if op == "BitXor": return Sc(S.bvxor(a, b), x.ty)
        if op == "Eq": return Sc(S.Eq(a, b), "bool")
        if op == "Ne": return Sc(S.Ne(a, b), "bool")
        if op == "Lt": return Sc(S.slt(a, b) if sg else S.ult(a, b), "bool")
        if op == "Le": return Sc(S.sle(a, b) if sg else S.ule(a, b), "bool")
        if op == "Gt": return Sc(S.sgt(a, b) if sg else S.ugt(a, b), "bool")
        if op == "Ge": return Sc(S.sge(a, b) if sg else S.uge(a, b), "bool")
        if op in ("Div", "Rem"):
            if sg:
                raise NotEncodable("signed division")
            return Sc(S.bvudiv(a, b) if op == "Div" else S.bvurem(a, b), x.ty)
        if op in ("AddWithOverflow", "SubWithOverflow", "MulWithOverflow"):
            kind = op[:3].lower()
            res, ovf = self.overflowing(kind, a, b, x.ty)
            return Agg([Sc(res, x.ty), Sc(ovf, "bool")], "tuple")
        raise NotEncodable("binop " + op)

    def mul(self, a, b, ty):
        """wrapping product; with abstract_products a symbolic x symbolic widening product becomes a fresh variable"""
        if self.abstract_products and not S.isconst(a) and not S.isconst(b):
            n = a.sort[1]
            wa, wb = eff_width(a), eff_width(b)
            if wa + wb <= n:
                for pa, pb, pv, _ in self.products:
                    if (pa is a and pb is b) or (pa is b and pb is a):
                        return pv
                v = self.fresh("P", BV(n))
                self.products.append((a, b, v, n))
                return v
        return S.bvmul(a, b)

    def overflowing(self, kind, a, b, ty):
        n = INT_BITS[ty]
        sg = ty in SIGNED
        if kind == "add":
            res = S.bvadd(a, b)
            if sg:
                w = S.bvadd(S.sext(a, n + 1), S.sext(b, n + 1))
                ovf = S.Not(S.And(S.sle(S.bvc(n + 1, -(1 << (n - 1))), w), S.sle(w, S.bvc(n + 1, (1 << (n - 1)) - 1))))
            else:
                w = S.bvadd(S.zext(a, n + 1), S.zext(b, n + 1))
                ovf = S.ule(S.bvc(n + 1, 1 << n), w)
            return res, ovf
        if kind == "sub":
            res = S.bvsub(a, b)
            if sg:
                w = S.bvsub(S.sext(a, n + 1), S.sext(b, n + 1))
                ovf = S.Not(S.And(S.sle(S.bvc(n + 1, -(1 << (n - 1))), w), S.sle(w, S.bvc(n + 1, (1 << (n - 1)) - 1))))
            else:
                ovf = S.ult(a, b)
            return res, ovf
        if kind == "mul":
            res = self.mul(a, b, ty)
            if res.op == "var" and any(res is p[2] for p in self.products):
                return res, S.FALSE     # an abstracted widening product (operand widths add up to <= n): cannot overflow
            if sg:
                w = S.bvmul(S.sext(a, 2 * n), S.sext(b, 2 * n))
                ovf = S.Not(S.And(S.sle(S.bvc(2 * n, -(1 << (n - 1))), w), S.sle(w, S.bvc(2 * n, (1 << (n - 1)) - 1))))
            else:
                if eff_width(a) + eff_width(b) <= n:
                    return res, S.FALSE   # widening multiplication: exact by construction (operand bit widths add up to <= n)
                if S.isconst(b) and b.p < 2: return res, S.FALSE
                if S.isconst(a) and a.p < 2: return res, S.FALSE
                w = S.bvmul(S.zext(a, 2 * n), S.zext(b, 2 * n))
                ovf = S.ule(S.bvc(2 * n, 1 << n), w)
            return res, ovf
        raise NotEncodable(kind)

    # ---- calls ------------------------------------------------------------------------------------------------------
    def _call_stmt(self, st, depth, s):
        fr = st.frames[depth]
        m = re.match(r"^(.*) -> \[return: (bb\d+), unwind[^\]]*\];$", s)
        diverge = False
        if m:
            body, ret_bb = m.group(1), m.group(2)
        else:
            m = re.match(r"^(.*) -> unwind \w+;$", s)
            body, ret_bb, diverge = m.group(1), None, True
        k = body.find(" = ")
        dest, call = body[:k], body[k + 3:]
        if not call.endswith(")"):
            raise NotEncodable("call syntax " + s)
        # find the '(' matching the final ')'
        d, open_i = 0, -1
        for i in range(len(call) - 1, -1, -1):
            if call[i] in ")]}":
                d += 1
            elif call[i] in "([{":
                d -= 1
                if d == 0:
                    open_i = i
                    break
        func, argtxt = call[:open_i].strip(), call[open_i + 1:-1]
        if diverge or re.search(r"\b(panic|panic_fmt|panic_const\w*|unreachable_display|unimplemented|expect_failed|unwrap_failed|panic_bounds_check|begin_panic)\b", lastseg(func).split("<")[0]) and ret_bb is None:
            self.obligations.append((st.pc, S.FALSE, "explicit panic: " + func[:60], fr.fn.name))
            return ("dead",)
        args = [self._operand(st, depth, a) for a in split_top(argtxt)]
        out = self.call(st, depth, func, args)
        if out is None:
            return ("dead",)
        st2, val = out
        self._assign(st2, depth, dest, val)
        return ("state", st2, ret_bb)

    def call(self, st, depth, func, args):
        """-> (state, value) or None if every path inside panics"""
        fr = st.frames[depth]
        for k, v in fr.subst.items():
            func = re.sub(r"(?<![\w:])" + re.escape(k) + r"(?![\w])", v, func)
        r = self.native(st, depth, func, args)
        if r is not None:
            return r
        fn, subst, gargs = self.resolve(func, args, fr)
        target = fn.name
        # abstraction hooks are keyed on the *resolved* target
        h = self.prog.impl_header(target) if "<impl at " in target else None
        if self.mode in ("ring", "exponent"):
            r = self.abstract_call(func, target, h, args)
            if r is not None:
                return st, r
        if target in self.summaries:
            return st, self.summaries[target](self, st, args)
        pc0 = st.pc
        st2, val = self._invoke(st, fn, args, subst, gargs)
        if st2 is None:
            return None
        if target in self.watch:
            self.calls.append((target, args, val, pc0))
        return st2, val

    def abstract_call(self, func, target, h, args):
        key = None
        if h and h["field"] == self.field and h["type"] == "BaseElement":
            key = (h["trait"], h["method"])
        elif target.startswith(("FieldElement::",)) and field_of(func + "::") == self.field:
            key = ("FieldElement", target.split("::")[-1])
        if key is None:
            return None
        table = RING_OPS if self.mode == "ring" else EXP_OPS
        if key in table:
            vals = []
            for a in args:
                if not (isinstance(a, Sc) and a.ty == "Z"):
                    raise NotEncodable(f"abstract {key}: argument is not an abstract element: {a!r}")
                vals.append(a.t)
            self.abstracted.append(f"{self.field}::{key[0]}::{key[1]}")
            return Sc(table[key](*vals), "Z")
        if key == (None, "new") and self.mode == "ring":
            a = args[0]
            if isinstance(a, Sc) and S.isconst(a.t):
                self.abstracted.append(f"{self.field}::new(const)")
                return Sc(S.intc(a.t.p), "Z")
            raise NotEncodable("ring abstraction: new() of a symbolic value")
        if key[1] in ("add_assign", "sub_assign", "mul_assign"):
            return None     # these are thin wrappers over add/sub/mul: inline them
        if key[0] in ("Add", "Sub", "Mul", "Neg", "FieldElement", None, "Div"):
            raise NotEncodable(f"{self.mode} abstraction: base-field operation {key} has no abstract counterpart")
        return None

    # ---- name resolution ---------------------------------------------------------------------------------------------
    def resolve(self, func, args, fr):
        """callee path as printed in a call terminator -> (Fn, type substitution, generic args)"""
        prog = self.prog
        crate = fr.fn.crate
        f = prog.fn(func, crate)
        if f is not None:
            return f, {}, []
        gargs = []
        base = func
        m = re.match(r"^(.*)::<(.*)>$", func)
        if m and balanced(m.group(1)):
            base, gargs = m.group(1), split_top(m.group(2))
            f = prog.fn(base, crate)
            if f is not None:
                return f, {}, gargs
        # <T as Trait>::method
        m = re.match(r"^<(.+) as ([^>]+?(?:<.*>)?)>::(\w+)$", base)
        if m:
            ty, tr, meth = m.group(1).strip(), m.group(2).strip(), m.group(3)
            trl = lastseg(tr)
            tm = re.match(r"^(\w+)(?:<(.*)>)?$", trl)
            tname, targs = tm.group(1), tm.group(2)
            fld = field_of(func + "::") or field_of(ty + "::")
            tyl = lastseg(ty)
            if targs is not None and re.match(r"^[A-Z]$", targs):
                # const generic of the calling default method: recover it from the argument shape
                if args and isinstance(args[0], Agg):
                    targs = str(len(args[0].items))
                else:
                    targs = None
            name = None
            me = re.match(r"^(QuadExtension|CubeExtension)<(.+)>$", ty)
            if me:
                # generic wrapper impls live in extensions/*.rs with type parameter B
                nm2 = prog.find(None, tname, meth, targs=(targs.replace(lastseg(me.group(2)), "B") if targs else None), type_=me.group(1) + "<B>")
                if nm2:
                    return prog.fns[nm2], {"B": me.group(2)}, gargs
            if fld:
                name = prog.find(fld, tname, meth, targs=targs, type_=tyl)
                if name is None and targs is not None and tname not in ("From", "TryFrom", "Into", "TryInto"):
                    name = prog.find(fld, tname, meth, targs=None, type_=tyl)
                # blanket impls: <U as (Try)Into<T>>::(try_)into  ==  <T as (Try)From<U>>::(try_)from
                if name is None and tname in ("Into", "TryInto") and targs:
                    name = prog.find(fld, tname[:-4] + "From", "from" if tname == "Into" else "try_from", targs=tyl, type_=lastseg(targs))
            if name:
                return prog.fns[name], {}, gargs
            dflt = prog.fn(f"{tname}::{meth}", "math")
            if dflt is not None and fld:
                return dflt, {"Self": ty}, gargs
            raise NotEncodable("cannot resolve trait call " + func)
        # inherent method  path::Type::method
        m = re.match(r"^(.*)::(\w+)::(\w+)$", base)
        if m:
            fld = field_of(base)
            if fld:
                name = prog.find(fld, None, m.group(3), type_=m.group(2))
                if name:
                    return prog.fns[name], {}, gargs
        # free function printed with another crate's (longer) path: unique `::`-suffix match, own crate first
        for c in [crate] + [x for x in prog.crate_fns if x != crate]:
            cands = [n for n in prog.crate_fns[c] if "<impl at" not in n and (base == n or base.endswith("::" + n))]
            if cands:
                best = max(cands, key=len)
                if sum(1 for n in cands if len(n) == len(best)) == 1:
                    return prog.crate_fns[c][best], {}, gargs
        raise NotEncodable("cannot resolve call " + func)

    # ---- native models of core functions --------------------------------------------------------------------------------------
    def native(self, st, depth, func, args):
        f = func
        m = re.match(r"^core::num::<impl (\w+)>::(\w+)$", f)
        if m:
            return st, self.num_intrinsic(m.group(1), m.group(2), args)
        m = re.match(r"^<(\w+) as (?:Into|From)<(\w+)>>::(into|from)$", f)
        if m:
            a, b, which = m.groups()
            src, dst = (a, b) if which == "into" else (b, a)
            if src in INT_BITS or src == "bool":
                if dst in INT_BITS and isinstance(args[0], Sc):
                    if src != "bool" and (INT_BITS[dst] < INT_BITS[src] or (src in SIGNED) != (dst in SIGNED)):
                        raise NotEncodable("lossy Into " + f)
                    return st, self.cast(args[0], dst)
        m = re.match(r"^<(\w+) as (TryInto|TryFrom)<(\w+)>>::(try_into|try_from)$", f)
        if m:
            a, _, b, which = m.groups()
            src, dst = (a, b) if which == "try_into" else (b, a)
            if src in INT_BITS and dst in INT_BITS and src not in SIGNED and dst not in SIGNED and isinstance(args[0], Sc):
                v = args[0]
                if INT_BITS[dst] >= INT_BITS[src]:
                    return st, Enum([(S.TRUE, "Ok", (self.cast(v, dst),))], "Result")
                fits = S.ule(v.t, S.bvc(INT_BITS[src], (1 << INT_BITS[dst]) - 1))
                return st, enum_norm([(fits, "Ok", (self.cast(v, dst),)), (S.Not(fits), "Err", (Opaque("TryFromIntError"),))], "Result")
        m = re.match(r"^core::mem::size_of::<(\w+)>$", f)
        if m and m.group(1) in INT_BITS:
            return st, sc_int(INT_BITS[m.group(1)] // 8, "usize")
        m = re.match(r"^(?:core::result::)?Result::<(.*)>::map::<.*>$", f)
        if m and isinstance(args[0], Enum) and isinstance(args[1], FnItem):
            alts = []
            for g, v, flds in args[0].alts:
                if v == "Ok":
                    out = self.call(st, depth, args[1].name, [flds[0]])
                    if out is None:
                        raise NotEncodable("Result::map: mapped function panics")
                    st, val = out
                    alts.append((g, v, (val,)))
                else:
                    alts.append((g, v, flds))
            return st, enum_norm(alts, "Result")
        if re.match(r"^<Result<.*> as Try>::branch$", f) and isinstance(args[0], Enum):
            alts = []
            for g, v, flds in args[0].alts:
                if v == "Ok":
                    alts.append((g, "Continue", flds))
                else:
                    alts.append((g, "Break", (Enum([(S.TRUE, "Err", (Opaque("error payload"),))], "Result"),)))
            return st, enum_norm(alts, "ControlFlow")
        if re.match(r"^<Result<.*> as FromResidual<.*>>::from_residual$", f):
            return st, Enum([(S.TRUE, "Err", (Opaque("error payload"),))], "Result")
        if f == "<core::ops::Range<usize> as IntoIterator>::into_iter" or f == "<std::ops::Range<usize> as IntoIterator>::into_iter":
            return st, args[0]
        if re.match(r"^<(core|std)::ops::Range<usize> as Iterator>::next$", f):
            r = args[0]
            if not isinstance(r, Ref):
                raise NotEncodable("Range::next on non-ref")
            rng = self._read(st, r.frame, r.local, r.proj)
            if not (isinstance(rng, Agg) and len(rng.items) == 2):
                raise NotEncodable("Range::next on " + repr(rng))
            a, b = rng.items
            if not (S.isconst(a.t) and S.isconst(b.t)):
                raise NotEncodable("Range with symbolic bounds")
            if a.t.p < b.t.p:
                new = Agg([sc_int(a.t.p + 1, "usize"), b], rng.kind)
                env = st.frames[r.frame].env
                env[r.local] = self._update(env[r.local], list(r.proj), new) if r.proj else new
                return st, Enum([(S.TRUE, "Some", (a,))], "Option")
            return st, Enum([(S.TRUE, "None", ())], "Option")
        # formatted error messages: opaque
        base = re.sub(r"::<.*?>(?=::|$)", "", f)
        lb = lastseg(base)
        if lb in ("format", "must_use", "Arguments::new", "Arguments::new_const", "Arguments::from_str", "Argument::new_display", "Argument::new_debug",
                  "Arguments::new_v1", "fmt::format", "Argument::new_lower_hex", "to_string", "<str as ToString>::to_string") \
                or re.match(r"^(core::fmt::rt::)?Argument(::<.*>)?::new_\w+", f) or re.match(r"^(core::fmt::)?Arguments(::<.*>)?::new", f):
            return st, Opaque("formatted message")
        m = re.match(r"^(?:core::result::)?Result::<(.*)>::(ok|map_err|expect|unwrap|is_ok|is_err)(?:::<.*>)?$", f)
        if m and isinstance(args[0], Enum):
            e, meth = args[0], m.group(2)
            if meth == "ok":
                return st, enum_norm([(g, "Some", flds) if v == "Ok" else (g, "None", ()) for g, v, flds in e.alts], "Option")
            if meth == "map_err":
                return st, enum_norm([(g, v, flds) if v == "Ok" else (g, "Err", (Opaque("mapped error"),)) for g, v, flds in e.alts], "Result")
            if meth in ("is_ok", "is_err"):
                c = S.Or(*[g for g, v, _ in e.alts if (v == "Ok") == (meth == "is_ok")])
                return st, Sc(c, "bool")
            if meth in ("expect", "unwrap"):
                oks = [(g, flds) for g, v, flds in e.alts if v == "Ok"]
                bad = S.Or(*[g for g, v, _ in e.alts if v != "Ok"])
                if bad is not S.FALSE:
                    self.obligations.append((st.pc, S.Not(bad), "Result::" + meth + " on Err", st.frames[depth].fn.name))
                    st.pc = st.pc + (S.Not(bad),)
                if len(oks) != 1:
                    raise NotEncodable("expect: no unique Ok alternative")
                return st, oks[0][1][0]
        m = re.match(r"^<&\[u8\] as TryInto<\[u8; (\d+)\]>>::try_into$", f)
        if m:
            n = int(m.group(1))
            r = args[0]
            v = self._read(st, r.frame, r.local, r.proj) if isinstance(r, Ref) else r
            if isinstance(v, Agg) and v.kind in ("array", "slice"):
                if len(v.items) == n:
                    return st, Enum([(S.TRUE, "Ok", (Agg(v.items, "array"),))], "Result")
                return st, Enum([(S.TRUE, "Err", (Opaque("TryFromSliceError"),))], "Result")
        m = re.match(r"^(?:core::slice::)?<impl \[(\w+)\]>::len$", f)
        if m:
            r = args[0]
            v = self._read(st, r.frame, r.local, r.proj) if isinstance(r, Ref) else r
            if isinstance(v, Agg) and v.kind in ("array", "slice"):
                return st, sc_int(len(v.items), "usize")
        return None

    def num_intrinsic(self, ty, op, a):
        if ty not in INT_BITS:
            raise NotEncodable("intrinsic type " + ty)
        n = INT_BITS[ty]
        sg = ty in SIGNED
        t = [x.t if isinstance(x, Sc) else None for x in a]
        if op in ("wrapping_add", "wrapping_sub", "wrapping_mul"):
            f = {"wrapping_add": S.bvadd, "wrapping_sub": S.bvsub}.get(op)
            return Sc(f(t[0], t[1]) if f else self.mul(t[0], t[1], ty), ty)
        if op == "wrapping_neg":
            return Sc(S.bvneg(t[0]), ty)
        if op in ("overflowing_add", "overflowing_sub", "overflowing_mul"):
            res, ovf = self.overflowing(op[12:], t[0], t[1], ty)
            return Agg([Sc(res, ty), Sc(ovf, "bool")], "tuple")
        if op in ("checked_add", "checked_sub", "checked_mul"):
            res, ovf = self.overflowing(op[8:], t[0], t[1], ty)
            return enum_norm([(S.Not(ovf), "Some", (Sc(res, ty),)), (ovf, "None", ())], "Option")
        if op in ("leading_zeros", "trailing_zeros"):
            x = t[0]
            out = S.bvc(32, n)
            rng = range(n) if op == "leading_zeros" else range(n - 1, -1, -1)
            for i in rng:   # the last assignment wins: highest set bit for lz, lowest for tz
                bit = S.Eq(S.extract(x, i, i), S.bvc(1, 1))
                out = S.Ite(bit, S.bvc(32, (n - 1 - i) if op == "leading_zeros" else i), out)
            return Sc(out, "u32")
        if op == "from_le_bytes":
            arr = a[0]
            if not (isinstance(arr, Agg) and len(arr.items) * 8 == n):
                raise NotEncodable("from_le_bytes argument")
            out = arr.items[-1].t
            for b in reversed(arr.items[:-1]):
                out = S.concat(out, b.t)
            return Sc(out, ty)
        if op == "to_le_bytes":
            return Agg([Sc(S.extract(t[0], 8 * i + 7, 8 * i), "u8") for i in range(n // 8)], "array")
        if op in ("min", "max") and not sg:
            c = S.ule(t[0], t[1])
            return Sc(S.Ite(c, t[0], t[1]) if op == "min" else S.Ite(c, t[1], t[0]), ty)
        if op == "pow" and S.isconst(t[1]):
            out = S.bvc(n, 1)
            for _ in range(t[1].p):
                out = S.bvmul(out, t[0])
            return Sc(out, ty)   # wrapping; the overflow check of `pow` is not modelled -> only for constants
        raise NotEncodable(f"core::num::<impl {ty}>::{op}")


def eff_width(t):
    """number of low bits a machine term can occupy by construction (zero-extension, constant right shift, mask, constant)"""
    n = t.sort[1]
    if t.op == "const":
        return max(t.p.bit_length(), 1)
    if t.op == "zext":
        return eff_width(t.args[0])
    if t.op == "bvlshr" and S.isconst(t.args[1]):
        return max(eff_width(t.args[0]) - t.args[1].p, 1) if t.args[1].p < n else 1
    if t.op == "bvand":
        return min(eff_width(t.args[0]), eff_width(t.args[1]))
    return n


BINOPS = {"Add", "Sub", "Mul", "Div", "Rem", "BitAnd", "BitOr", "BitXor", "Shl", "Shr", "Lt", "Le", "Gt", "Ge", "Eq", "Ne",
          "AddWithOverflow", "SubWithOverflow", "MulWithOverflow", "AddUnchecked", "SubUnchecked", "MulUnchecked",
          "ShlUnchecked", "ShrUnchecked"}


def enum_norm(alts, ety):
    alts = [(g, v, f) for g, v, f in alts if g is not S.FALSE]
    return Enum(alts, ety)


def merge_values(guards, vals):
    """ite-chain over mutually exclusive guards (the last value is the default)"""
    v0 = vals[0]
    if all(v is v0 for v in vals):
        return v0
    if any(v is None for v in vals):
        raise NotEncodable("merge of uninitialised value")
    if isinstance(v0, Sc):
        if not all(isinstance(v, Sc) and v.ty == v0.ty for v in vals):
            raise NotEncodable("merge of differently typed scalars")
        out = vals[-1].t
        for g, v in zip(reversed(guards[:-1]), reversed(vals[:-1])):
            out = S.Ite(g, v.t, out)
        return Sc(out, v0.ty)
    if isinstance(v0, Agg):
        if not all(isinstance(v, Agg) and len(v.items) == len(v0.items) for v in vals):
            raise NotEncodable("merge of differently shaped aggregates")
        return Agg([merge_values(guards, [v.items[i] for v in vals]) for i in range(len(v0.items))], v0.kind)
    if isinstance(v0, Enum):
        if not all(isinstance(v, Enum) and v.ety == v0.ety for v in vals):
            raise NotEncodable("merge of different enums")
        alts = []
        for g, v in zip(guards, vals):
            for ag, vn, flds in v.alts:
                alts.append((S.And(g, ag), vn, flds))
        # fuse alternatives of the same variant
        fused = {}
        order = []
        for g, vn, flds in alts:
            if g is S.FALSE:
                continue
            if vn not in fused:
                fused[vn] = []
                order.append(vn)
            fused[vn].append((g, flds))
        out = []
        for vn in order:
            gs = [g for g, _ in fused[vn]]
            fl = [f for _, f in fused[vn]]
            if len(fl) == 1:
                out.append((gs[0], vn, fl[0]))
            else:
                merged = tuple(merge_values(gs, [f[i] for f in fl]) for i in range(len(fl[0])))
                out.append((S.Or(*gs), vn, merged))
        return Enum(out, v0.ety)
    if isinstance(v0, Opaque):
        if all(isinstance(v, Opaque) for v in vals):
            return v0
        raise NotEncodable("merge of opaque with concrete value")
    if isinstance(v0, Ref):
        if all(isinstance(v, Ref) and (v.frame, v.local, v.proj) == (v0.frame, v0.local, v0.proj) for v in vals):
            return v0
        raise NotEncodable("merge of different references")
    raise NotEncodable("merge of " + repr(v0))


# =================================================================================================
# convenience
def sym(name, ty):
    """a symbolic scalar of rust integer type `ty`"""
    if ty == "bool":
        return Sc(S.var(name, BOOL), "bool")
    return Sc(S.var(name, BV(INT_BITS[ty])), ty)


def elem(x):
    """newtype struct BaseElement(x)"""
    return Agg([x], "struct:BaseElement")


def inner(v):
    """inner machine term of a BaseElement value"""
    if isinstance(v, Agg) and len(v.items) == 1 and isinstance(v.items[0], Sc):
        return v.items[0].t
    raise NotEncodable("not a newtype element: " + repr(v))


def zelem(name):
    return Sc(S.var(name, INT), "Z")
