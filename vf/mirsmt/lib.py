"""helpers shared by the property modules (vf/props/c07.py, c08.py, c11.py)"""
from . import terms as S
from . import translate as X
from .runner import Query, Validation, Replay, Built, Obligation
from .terms import NotEncodable

# documented field parameters (the SPECIFICATION side; the repository's constants are checked against these)
F64 = dict(name="f64", ty="u64", bits=64, M=2**64 - 2**32 + 1, rep=2**64 - 2**32 + 1, mont=True,
           self_ty="field::f64::BaseElement", gen=7, two_adicity=32)
F62 = dict(name="f62", ty="u64", bits=64, M=2**62 - 111 * 2**39 + 1, rep=2 * (2**62 - 111 * 2**39 + 1), mont=True,
           self_ty="f62::BaseElement", gen=3, two_adicity=39)
F128 = dict(name="f128", ty="u128", bits=128, M=2**128 - 45 * 2**40 + 1, rep=2**128 - 45 * 2**40 + 1, mont=False,
            self_ty="field::f128::BaseElement", gen=3, two_adicity=40)
FIELDS = {"f64": F64, "f62": F62, "f128": F128}
SPECIAL = [0, 1, 2**31, 2**32, 2**32 - 1, 2**33, 2**62, 2**63, 2**64 - 1, 2**64 - 2**32, 2**64 - 2**32 + 1, 2**64 - 2**33,
           2**62 - 111 * 2**39 + 1, 2 * (2**62 - 111 * 2**39 + 1), (2**64 - 2**32 + 1) // 2, 2**127, 2**128 - 45 * 2**40 + 1,
           2**96, 2**65]


def find(prog, field, trait, method, **kw):
    n = prog.find(field, trait, method, **kw)
    if n is None:
        raise NotEncodable(f"no impl {field} {trait}::{method} {kw} in the MIR dump")
    return n


def run(prog, name, args, refs=False, crate="math", subst=None, **opts):
    """execute MIR function `name` (looked up in `crate`'s dump first); with refs=True every argument is passed as
    `&arg` (methods taking &self / &mut self: the final values are in ex.final_env['_1'..])."""
    ex = X.Executor(prog, **{k: v for k, v in opts.items() if k != "watch"})
    ex.watch = set(opts.get("watch", ()))
    fn = prog.fn(name, crate)
    if fn is None:
        raise NotEncodable("no MIR body for " + name)
    if subst:
        st = X.State([], ())
        st, ret = ex._invoke(st, fn, args, subst, [])
        if st is None:
            raise NotEncodable(name + ": every path panics")
        return ex, ret
    if refs:
        env = {f"_{i + 1}": a for i, a in enumerate(args)}
        fr = X.Frame(X.Fn("<harness>", [], "()", "verif"), env)
        st = X.State([fr], ())
        st, ret = ex._invoke(st, fn, [X.Ref(0, f"_{i + 1}", ()) for i in range(len(args))], {}, [])
        if st is None:
            raise NotEncodable(name + ": every path panics")
        ex.final_env = st.frames[0].env
        ex.final_pc = st.pc
    else:
        ret = ex.call_fn(name, args, crate=crate)
    return ex, ret


def nopanic(ex, pre, bounds=None, name="nopanic", extra_assumptions=()):
    """one query: no `assert` terminator (overflow / shift / index / explicit panic) of the encoded bodies can fail"""
    parts, locate = [], []
    for i, (pc, cond, msg, fn) in enumerate(ex.obligations):
        t = S.Implies(S.And(*pc), cond)
        if t is S.TRUE:
            continue
        parts.append(t)
        short = fn.split("::")[-1] if "<impl" not in fn else X.lastseg(fn.split(">::")[-1])
        locate.append((f"{short}#{i}:{msg[:40]}", t))
    if not parts:
        return None
    return Query(name, list(pre) + list(ex.assumptions) + list(extra_assumptions), S.And(*parts), bounds, locate=locate)


def short_fns(ex):
    out = []
    for n in ex.encoded:
        if n.startswith("<harness>"):
            continue
        h = n
        m = X.re.search(r"<impl at ([^:]+):(\d+)[^>]*>::(.+)$", n)
        if m:
            h = f"{m.group(1)}:{m.group(2)}::{m.group(3)}"
        out.append(h)
    return out


def scalar_const(prog, path, crate="math"):
    """value of a scalar const item, by the path a use site would print (e.g. field::f62::R3)"""
    hit = prog.lookup_const(path, crate)
    if hit is None:
        raise NotEncodable("const " + path + " not found in the MIR dump")
    item = prog.crate_consts[hit[1]][hit[0]]
    if not isinstance(item, tuple):
        raise NotEncodable("const " + path + " is not a scalar literal")
    return item[0]


def require_trivial(ex, what=""):
    """for builds that emit no no-panic query: every collected assertion must have folded to true at translation time"""
    for pc, cond, msg, fn in ex.obligations:
        if S.Implies(S.And(*pc), cond) is not S.TRUE:
            raise NotEncodable(f"{what}: non-trivial panic condition left unaccounted: {fn}: {msg}")
