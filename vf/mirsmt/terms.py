"""Engine M term language: hash-consed machine-integer / bool / mathematical-integer terms with
  * constant folding + a python evaluator (used for translator validation and for checking solver models),
  * SMT-LIB2 export in two encodings:
      - "bv":  machine values are bit-vectors (exact wrap-around); mathematical integers of the specification side
               become signed bit-vectors of a width computed by interval analysis (no wrap possible);
      - "int": machine values are integers; every node carries a window [lo,hi] with value == expr (mod 2^n) and the
               explicit `mod 2^n` is emitted exactly where the window could exceed one period (keeps machine semantics).
Nothing here knows about MIR."""
import re


class NotEncodable(Exception):
    pass


BOOL = "bool"
INT = "int"


def BV(n):
    return ("bv", n)


def is_bv(s):
    return isinstance(s, tuple)


class T:
    __slots__ = ("op", "args", "sort", "p", "id")

    def __repr__(self):
        if self.op == "const":
            return f"{self.p}" if self.sort in (BOOL, INT) else f"{self.p}:bv{self.sort[1]}"
        if self.op == "var":
            return self.p
        return f"t{self.id}:{self.op}"

    # arithmetic sugar, only for mathematical integers (specification side)
    def _int(self):
        if self.sort != INT:
            raise TypeError(f"integer operator on non-int term {self!r} ({self.sort}); use nat()/sint()")
        return self

    def __add__(self, o): return iadd(self._int(), lift(o))
    def __radd__(self, o): return iadd(lift(o), self._int())
    def __sub__(self, o): return isub(self._int(), lift(o))
    def __rsub__(self, o): return isub(lift(o), self._int())
    def __mul__(self, o): return imul(self._int(), lift(o))
    def __rmul__(self, o): return imul(lift(o), self._int())
    def __neg__(self): return ineg(self._int())
    def __mod__(self, o): return imod(self._int(), lift(o))
    def __floordiv__(self, o): return idiv(self._int(), lift(o))


_table = {}
_next = [0]


def reset():
    """drop the hash-consing table (terms built before must not be mixed with terms built after)"""
    _table.clear()
    _next[0] = 0


def _mk(op, args, sort, p=None):
    key = (op, tuple(a.id for a in args), sort, p)
    t = _table.get(key)
    if t is None:
        t = T()
        t.op, t.args, t.sort, t.p = op, tuple(args), sort, p
        t.id = _next[0]
        _next[0] += 1
        _table[key] = t
    return t


def const(sort, v):
    if sort == BOOL:
        v = bool(v)
    elif sort == INT:
        v = int(v)
    else:
        v = int(v) & ((1 << sort[1]) - 1)
    return _mk("const", (), sort, v)


def bvc(n, v): return const(BV(n), v)
def intc(v): return const(INT, v)


TRUE = None
FALSE = None


def _init_consts():
    global TRUE, FALSE
    TRUE = const(BOOL, True)
    FALSE = const(BOOL, False)


def var(name, sort):
    if not re.match(r"^[A-Za-z_][A-Za-z0-9_.]*$", name):
        raise ValueError("bad variable name " + name)
    return _mk("var", (), sort, name)


def lift(x):
    if isinstance(x, T):
        return x
    if isinstance(x, bool):
        return const(BOOL, x)
    if isinstance(x, int):
        return intc(x)
    raise TypeError(f"cannot lift {x!r}")


def isconst(t): return t.op == "const"


# ------------------------------------------------------------------------------------------------
# semantics of every operator on python values (single source of truth for folding and evaluation)
def _s(v, n):  # signed reading
    return v - (1 << n) if v >> (n - 1) else v


def _ev(op, sort, p, a, asorts):
    if op == "bvadd": return (a[0] + a[1]) & ((1 << sort[1]) - 1)
    if op == "bvsub": return (a[0] - a[1]) & ((1 << sort[1]) - 1)
    if op == "bvmul": return (a[0] * a[1]) & ((1 << sort[1]) - 1)
    if op == "bvand": return a[0] & a[1]
    if op == "bvor": return a[0] | a[1]
    if op == "bvxor": return a[0] ^ a[1]
    if op == "bvnot": return (~a[0]) & ((1 << sort[1]) - 1)
    if op == "bvneg": return (-a[0]) & ((1 << sort[1]) - 1)
    if op == "bvshl":
        n = sort[1]
        return (a[0] << a[1]) & ((1 << n) - 1) if a[1] < n else 0
    if op == "bvlshr":
        return a[0] >> a[1] if a[1] < sort[1] else 0
    if op == "bvashr":
        n = sort[1]
        sh = min(a[1], n)
        return (_s(a[0], n) >> sh) & ((1 << n) - 1)
    if op == "bvudiv":
        return a[0] // a[1] if a[1] else (1 << sort[1]) - 1
    if op == "bvurem":
        return a[0] % a[1] if a[1] else a[0]
    if op == "zext": return a[0]
    if op == "sext": return _s(a[0], asorts[0][1]) & ((1 << sort[1]) - 1)
    if op == "extract": return (a[0] >> p[1]) & ((1 << (p[0] - p[1] + 1)) - 1)
    if op == "concat": return (a[0] << asorts[1][1]) | a[1]
    if op == "ite": return a[1] if a[0] else a[2]
    if op == "eq": return a[0] == a[1]
    if op == "ult": return a[0] < a[1]
    if op == "ule": return a[0] <= a[1]
    if op == "slt": return _s(a[0], asorts[0][1]) < _s(a[1], asorts[0][1])
    if op == "sle": return _s(a[0], asorts[0][1]) <= _s(a[1], asorts[0][1])
    if op == "ilt": return a[0] < a[1]
    if op == "ile": return a[0] <= a[1]
    if op == "and": return all(a)
    if op == "or": return any(a)
    if op == "not": return not a[0]
    if op == "iadd": return sum(a)
    if op == "isub": return a[0] - a[1]
    if op == "imul":
        r = 1
        for x in a:
            r *= x
        return r
    if op == "ineg": return -a[0]
    if op == "idiv":
        if a[1] == 0:
            raise NotEncodable("division by zero in specification term")
        q = a[0] // a[1] if a[1] > 0 else -(a[0] // -a[1])  # SMT-LIB: a = b*q + r, 0 <= r < |b|
        return q
    if op == "imod":
        if a[1] == 0:
            raise NotEncodable("mod by zero in specification term")
        return a[0] % abs(a[1])
    if op == "bv2nat": return a[0]
    if op == "sbv2int": return _s(a[0], asorts[0][1])
    raise NotEncodable("eval: unknown op " + op)


def _app(op, args, sort, p=None, fold=True):
    if fold and all(x.op == "const" for x in args):
        return const(sort, _ev(op, sort, p, [x.p for x in args], [x.sort for x in args]))
    return _mk(op, args, sort, p)


# ---- smart constructors -------------------------------------------------------------------------
def _same(a, b):
    if a.sort != b.sort:
        raise NotEncodable(f"sort mismatch {a.sort} vs {b.sort} ({a!r}, {b!r})")


def bvbin(op, a, b):
    _same(a, b)
    n = a.sort[1]
    if op in ("bvadd", "bvor", "bvxor") and isconst(a) and a.p == 0: return b
    if op in ("bvadd", "bvsub", "bvor", "bvxor", "bvshl", "bvlshr", "bvashr") and isconst(b) and b.p == 0: return a
    if op == "bvmul":
        if isconst(a) and not isconst(b): a, b = b, a
        if isconst(b):
            if b.p == 1: return a
            if b.p == 0: return b
    if op == "bvand":
        if isconst(a) and not isconst(b): a, b = b, a
        if isconst(b):
            if b.p == 0: return b
            if b.p == (1 << n) - 1: return a
    if op in ("bvsub", "bvxor") and a is b: return bvc(n, 0)
    if op in ("bvand", "bvor") and a is b: return a
    return _app(op, (a, b), a.sort)


def bvadd(a, b): return bvbin("bvadd", a, b)
def bvsub(a, b): return bvbin("bvsub", a, b)
def bvmul(a, b): return bvbin("bvmul", a, b)
def bvand(a, b): return bvbin("bvand", a, b)
def bvor(a, b): return bvbin("bvor", a, b)
def bvxor(a, b): return bvbin("bvxor", a, b)
def bvshl(a, b): return bvbin("bvshl", a, b)
def bvlshr(a, b): return bvbin("bvlshr", a, b)
def bvashr(a, b): return bvbin("bvashr", a, b)
def bvudiv(a, b): return bvbin("bvudiv", a, b)
def bvurem(a, b): return bvbin("bvurem", a, b)
def bvnot(a): return _app("bvnot", (a,), a.sort)
def bvneg(a): return _app("bvneg", (a,), a.sort)


def zext(a, n):
    m = a.sort[1]
    if n == m: return a
    if n < m: raise NotEncodable("zext to a smaller width")
    if a.op == "zext": return zext(a.args[0], n)
    return _app("zext", (a,), BV(n))


def sext(a, n):
    m = a.sort[1]
    if n == m: return a
    if n < m: raise NotEncodable("sext to a smaller width")
    return _app("sext", (a,), BV(n))


def extract(a, hi, lo):
    n = a.sort[1]
    if not (0 <= lo <= hi < n): raise NotEncodable("bad extract")
    if lo == 0 and hi == n - 1: return a
    if a.op in ("zext", "sext") and lo == 0:
        inner = a.args[0]
        m = inner.sort[1]
        if hi + 1 == m: return inner
        if hi + 1 < m: return extract(inner, hi, 0)
        return zext(inner, hi + 1) if a.op == "zext" else sext(inner, hi + 1)
    if a.op == "extract":
        return extract(a.args[0], a.p[1] + hi, a.p[1] + lo)
    return _app("extract", (a,), BV(hi - lo + 1), (hi, lo))


def trunc(a, n):
    return extract(a, n - 1, 0)


def concat(a, b):
    return _app("concat", (a, b), BV(a.sort[1] + b.sort[1]))


def Not(a):
    if a.sort != BOOL: raise NotEncodable("Not on non-bool")
    if a.op == "not": return a.args[0]
    return _app("not", (a,), BOOL)


def _nary(op, xs, unit, zero):
    out, seen = [], set()
    stack = list(reversed([lift(x) for x in xs]))
    while stack:
        x = stack.pop()
        if x.sort != BOOL: raise NotEncodable(op + " on non-bool")
        if x.op == op:
            stack.extend(reversed(x.args))
            continue
        if x is unit: continue
        if x is zero: return zero
        if x.id in seen: continue
        seen.add(x.id)
        out.append(x)
    ids = {x.id for x in out}
    for x in out:
        if x.op == "not" and x.args[0].id in ids:
            return zero
    if not out: return unit
    if len(out) == 1: return out[0]
    return _mk(op, tuple(out), BOOL)


def And(*xs):
    if len(xs) == 1 and isinstance(xs[0], (list, tuple)): xs = xs[0]
    return _nary("and", xs, TRUE, FALSE)


def Or(*xs):
    if len(xs) == 1 and isinstance(xs[0], (list, tuple)): xs = xs[0]
    return _nary("or", xs, FALSE, TRUE)


def Implies(a, b):
    return Or(Not(a), b)


def Ite(c, a, b):
    a, b = lift(a), lift(b)
    _same(a, b)
    if c is TRUE: return a
    if c is FALSE: return b
    if a is b: return a
    if a.sort == BOOL:
        if a is TRUE and b is FALSE: return c
        if a is FALSE and b is TRUE: return Not(c)
        if a is TRUE: return Or(c, b)
        if a is FALSE: return And(Not(c), b)
        if b is TRUE: return Or(Not(c), a)
        if b is FALSE: return And(c, a)
    if c.op == "not":
        return Ite(c.args[0], b, a)
    return _mk("ite", (c, a, b), a.sort)


def _cmp_push(op, a, b):
    """cmp(ite(c,k1,k2), k) with constants -> boolean over c (keeps discriminant tests foldable)"""
    if a.op == "ite" and isconst(b) and all(isconst(x) or x.op == "ite" for x in a.args[1:]):
        return Ite(a.args[0], _cmp(op, a.args[1], b), _cmp(op, a.args[2], b))
    if b.op == "ite" and isconst(a) and all(isconst(x) or x.op == "ite" for x in b.args[1:]):
        return Ite(b.args[0], _cmp(op, a, b.args[1]), _cmp(op, a, b.args[2]))
    return None


def _cmp(op, a, b):
    a, b = lift(a), lift(b)
    _same(a, b)
    if a is b:
        return const(BOOL, op in ("eq", "ule", "sle", "ile"))
    if isconst(a) and isconst(b):
        return const(BOOL, _ev(op, BOOL, None, [a.p, b.p], [a.sort, b.sort]))
    if op == "eq" and a.sort == BOOL:
        if isconst(b): return a if b.p else Not(a)
        if isconst(a): return b if a.p else Not(b)
    r = _cmp_push(op, a, b)
    if r is not None: return r
    if op == "eq" and a.id > b.id: a, b = b, a
    return _mk(op, (a, b), BOOL)


def Eq(a, b): return _cmp("eq", a, b)
def Ne(a, b): return Not(Eq(a, b))
def ult(a, b): return _cmp("ult", a, b)
def ule(a, b): return _cmp("ule", a, b)
def ugt(a, b): return _cmp("ult", b, a)
def uge(a, b): return _cmp("ule", b, a)
def slt(a, b): return _cmp("slt", a, b)
def sle(a, b): return _cmp("sle", a, b)
def sgt(a, b): return _cmp("slt", b, a)
def sge(a, b): return _cmp("sle", b, a)
def Lt(a, b): return _cmp("ilt", lift(a)._int(), lift(b)._int())
def Le(a, b): return _cmp("ile", lift(a)._int(), lift(b)._int())
def Gt(a, b): return Lt(b, a)
def Ge(a, b): return Le(b, a)


def iadd(*xs):
    flat, c = [], 0
    for x in xs:
        x = lift(x)._int()
        if x.op == "iadd": parts = x.args
        else: parts = (x,)
        for y in parts:
            if isconst(y): c += y.p
            else: flat.append(y)
    if c or not flat: flat.append(intc(c))
    if len(flat) == 1: return flat[0]
    return _mk("iadd", tuple(flat), INT)


def isub(a, b):
    a, b = lift(a)._int(), lift(b)._int()
    if isconst(b): return iadd(a, intc(-b.p))
    if a is b: return intc(0)
    return _app("isub", (a, b), INT)


def imul(*xs):
    flat, c = [], 1
    for x in xs:
        x = lift(x)._int()
        if isconst(x): c *= x.p
        else: flat.append(x)
    if c == 0: return intc(0)
    if not flat: return intc(c)
    if c != 1: flat.insert(0, intc(c))
    if len(flat) == 1: return flat[0]
    return _mk("imul", tuple(flat), INT)


def ineg(a): return imul(intc(-1), a)
def idiv(a, b): return _app("idiv", (lift(a)._int(), lift(b)._int()), INT)
def imod(a, b): return _app("imod", (lift(a)._int(), lift(b)._int()), INT)


def raw(op, args, sort, p=None):
    """no folding: lets the SOLVER evaluate constant expressions (constant-only queries)"""
    return _mk(op, tuple(args), sort, p)


def nat(a):
    """unsigned value of a machine term as a mathematical integer"""
    if a.sort == INT: return a
    if a.sort == BOOL: return Ite(a, intc(1), intc(0))
    return _app("bv2nat", (a,), INT)


def sint(a):
    """signed (two's complement) value of a machine term as a mathematical integer"""
    return _app("sbv2int", (a,), INT)


_init_consts()


# ------------------------------------------------------------------------------------------------
def topo(roots):
    seen, order = set(), []
    stack = [(r, False) for r in roots]
    while stack:
        t, done = stack.pop()
        if done:
            order.append(t)
            continue
        if t.id in seen: continue
        seen.add(t.id)
        stack.append((t, True))
        for a in t.args:
            if a.id not in seen:
                stack.append((a, False))
    return order


def free_vars(roots):
    return sorted({(t.p, t.sort) for t in topo(roots) if t.op == "var"}, key=lambda x: x[0])


def evaluate(roots, env):
    """env: var name -> python int/bool. returns list of python values for roots."""
    val = {}
    for t in topo(roots):
        if t.op == "const": val[t.id] = t.p
        elif t.op == "var":
            if t.p not in env:
                raise KeyError(f"no value for variable {t.p}")
            v = env[t.p]
            if is_bv(t.sort): v = int(v) & ((1 << t.sort[1]) - 1)
            val[t.id] = v
        else:
            val[t.id] = _ev(t.op, t.sort, t.p, [val[a.id] for a in t.args], [a.sort for a in t.args])
    return [val[r.id] for r in roots]


def substitute(roots, mapping):
    """mapping: var name -> term. rebuilds through the smart constructors where it matters (generic rebuild)."""
    new = {}
    for t in topo(roots):
        if t.op == "var":
            new[t.id] = mapping.get(t.p, t)
        elif t.op == "const":
            new[t.id] = t
        else:
            args = tuple(new[a.id] for a in t.args)
            if all(x is y for x, y in zip(args, t.args)):
                new[t.id] = t
            else:
                new[t.id] = rebuild(t.op, args, t.sort, t.p)
    return [new[r.id] for r in roots]


def rebuild(op, args, sort, p):
    if op in ("bvadd", "bvsub", "bvmul", "bvand", "bvor", "bvxor", "bvshl", "bvlshr", "bvashr", "bvudiv", "bvurem"):
        return bvbin(op, *args)
    if op == "and": return And(*args)
    if op == "or": return Or(*args)
    if op == "not": return Not(args[0])
    if op == "ite": return Ite(*args)
    if op in ("eq", "ult", "ule", "slt", "sle", "ilt", "ile"): return _cmp(op, *args)
    if op == "zext": return zext(args[0], sort[1])
    if op == "sext": return sext(args[0], sort[1])
    if op == "extract": return extract(args[0], p[0], p[1])
    if op == "iadd": return iadd(*args)
    if op == "imul": return imul(*args)
    if op == "isub": return isub(*args)
    return _app(op, args, sort, p)


# ------------------------------------------------------------------------------------------------
# SMT-LIB export
def _bvlit(v, n):
    return f"(_ bv{v & ((1 << n) - 1)} {n})"


def _ilit(v):
    return str(v) if v >= 0 else f"(- {-v})"


def _bits(v):
    return max(v.bit_length(), 1)


class Emit:
    """one query: declarations + assumptions + negated goal, in one encoding."""

    def __init__(self, mode, assumptions, goal, bounds=None, negate=True):
        self.mode = mode
        self.bounds = dict(bounds or {})
        self.assumptions = [lift(a) for a in assumptions]
        self.goal = goal
        self.negate = negate
        self.roots = self.assumptions + [goal]
        self.order = topo(self.roots)
        self.vars = [t for t in self.order if t.op == "var"]
        self.lines = []
        self.win = {}   # bv nodes, int mode bookkeeping: id -> (lo, hi) window of the emitted integer expression
        self.irng = {}  # int nodes: id -> (lo, hi) or None
        self.name = {}
        self.W = None
        self.fallbacks = 0

    # ---- interval / window analysis (shared by both modes) --------------------------------------
    def analyse(self):
        """computes, for every bv node, the window its int-mode expression lives in, and whether a normalisation
        (mod 2^n) is needed after the operation; for every int node a plain interval (None = unbounded)."""
        self.plan = {}
        for t in self.order:
            if is_bv(t.sort): self._bv_window(t)
            elif t.sort == INT: self._int_range(t)

    def _u(self, a):
        """unsigned range of bv node a (after normalisation if needed)"""
        lo, hi = self.win[a.id]
        n = a.sort[1]
        if lo >= 0 and hi < (1 << n): return lo, hi
        k = lo >> n
        if (hi >> n) == k: return lo - (k << n), hi - (k << n)
        return 0, (1 << n) - 1

    def _sg(self, a):
        lo, hi = self.win[a.id]
        n = a.sort[1]
        h = 1 << (n - 1)
        if lo >= -h and hi < h: return lo, hi
        k = (lo + h) >> n
        if ((hi + h) >> n) == k: return lo - (k << n), hi - (k << n)
        return -h, h - 1

    def _bv_window(self, t):
        n = t.sort[1]
        full = (0, (1 << n) - 1)
        op, a = t.op, t.args
        w = None
        def crep(x):
            """window of an operand; a constant with the top bit set is read as its negative representative (same value mod 2^n)"""
            if isconst(x) and x.p >= (1 << (n - 1)):
                return (x.p - (1 << n), x.p - (1 << n))
            return self.win[x.id]
        if op == "const": w = (t.p, t.p)
        elif op == "var":
            w = self.bounds.get(t.p, full)
            if not (0 <= w[0] <= w[1] <= full[1]): raise NotEncodable("bad bound for " + t.p)
        elif op == "bvadd":
            (la, ha), (lb, hb) = crep(a[0]), crep(a[1])
            w = (la + lb, ha + hb)
        elif op == "bvsub":
            (la, ha), (lb, hb) = crep(a[0]), crep(a[1])
            w = (la - hb, ha - lb)
        elif op == "bvmul":
            (la, ha), (lb, hb) = crep(a[0]), crep(a[1])
            c = [la * lb, la * hb, ha * lb, ha * hb]
            w = (min(c), max(c))
        elif op == "bvneg":
            la, ha = self.win[a[0].id]
            w = (-ha, -la)
        elif op == "bvnot":
            la, ha = self.win[a[0].id]
            w = (-1 - ha, -1 - la)
        elif op == "bvshl" and isconst(a[1]):
            c = a[1].p
            la, ha = self.win[a[0].id]
            w = (la << c, ha << c) if c < n else (0, 0)
        elif op == "bvlshr" and isconst(a[1]):
            c = a[1].p
            la, ha = self._u(a[0])
            w = (la >> c, ha >> c) if c < n else (0, 0)
        elif op == "bvashr" and isconst(a[1]):
            c = min(a[1].p, n - 1)
            la, ha = self._sg(a[0])
            w = (la >> c, ha >> c)
        elif op == "zext":
            w = self._u(a[0])
        elif op == "sext":
            w = self._sg(a[0])
        elif op == "extract":
            hi_, lo_ = t.p
            if lo_ == 0:
                la, ha = self.win[a[0].id]
                w = (la, ha)     # congruent mod 2^(hi+1) as well; normalised below if too wide
            else:
                la, ha = self._u(a[0])
                la, ha = la >> lo_, ha >> lo_
                w = (la, ha) if ha < (1 << n) else full
                if ha >= (1 << n): self.plan[t.id] = "mod"
        elif op == "concat":
            (la, ha), (lb, hb) = self._u(a[0]), self._u(a[1])
            nb = a[1].sort[1]
            w = ((la << nb) + lb, (ha << nb) + hb)
        elif op == "ite":
            (la, ha), (lb, hb) = self.win[a[1].id], self.win[a[2].id]
            w = (min(la, lb), max(ha, hb))
            if w[1] - w[0] >= (1 << n):
                (la, ha), (lb, hb) = self._u(a[1]), self._u(a[2])
                w = (min(la, lb), max(ha, hb))
                self.plan[t.id] = "norm-args"
        elif op == "bvand" and isconst(a[1]) and (a[1].p & (a[1].p + 1)) == 0:
            k = a[1].p.bit_length()
            la, ha = self.win[a[0].id]
            if la >= 0 and ha <= a[1].p: w = (la, ha)
            else:
                w = (0, a[1].p)
                self.plan[t.id] = ("modk", k)
        elif op in ("bvand", "bvor", "bvxor", "bvshl", "bvlshr", "bvashr", "bvudiv", "bvurem"):
            w = full
            if op == "bvand":
                w = (0, min(self._u(a[0])[1], self._u(a[1])[1]))
            elif op in ("bvlshr", "bvurem"):
                w = (0, self._u(a[0])[1])
            self.plan[t.id] = "fallback"
        else:
            raise NotEncodable("window: unknown bv op " + op)
        if w[1] - w[0] >= (1 << n):
            self.plan[t.id] = "mod"
            w = full
        self.win[t.id] = w

    def _int_range(self, t):
        op, a = t.op, t.args
        r = None
        R = lambda x: self.irng[x.id]
        if op == "const": r = (t.p, t.p)
        elif op == "var": r = self.bounds.get(t.p)
        elif op == "bv2nat": r = self._u(a[0])
        elif op == "sbv2int": r = self._sg(a[0])
        elif op == "iadd":
            if all(R(x) for x in a): r = (sum(R(x)[0] for x in a), sum(R(x)[1] for x in a))
        elif op == "isub":
            if R(a[0]) and R(a[1]): r = (R(a[0])[0] - R(a[1])[1], R(a[0])[1] - R(a[1])[0])
        elif op == "imul":
            if all(R(x) for x in a):
                lo, hi = 1, 1
                for x in a:
                    c = [lo * R(x)[0], lo * R(x)[1], hi * R(x)[0], hi * R(x)[1]]
                    lo, hi = min(c), max(c)
                r = (lo, hi)
        elif op == "imod":
            if isconst(a[1]) and a[1].p != 0: r = (0, abs(a[1].p) - 1)
        elif op == "idiv":
            if isconst(a[1]) and a[1].p > 0 and R(a[0]): r = (R(a[0])[0] // a[1].p, R(a[0])[1] // a[1].p)
        elif op == "ite":
            if R(a[1]) and R(a[2]): r = (min(R(a[1])[0], R(a[2])[0]), max(R(a[1])[1], R(a[2])[1]))
        else:
            raise NotEncodable("range: unknown int op " + op)
        self.irng[t.id] = r

    # ---- helpers -----------------------------------------------------------------------------------
    def _def(self, t, sort_s, body):
        nm = f"t{t.id}"
        self.lines.append(f"(define-fun {nm} () {sort_s} {body})")
        self.name[t.id] = nm

    def ref(self, t):
        return self.name[t.id]

    # ---- INT mode ------------------------------------------------------------------------------------
    def _iu(self, a):
        """int-mode expression for the UNSIGNED value of bv node a"""
        lo, hi = self.win[a.id]
        n = a.sort[1]
        e = self.ref(a)
        if lo >= 0 and hi < (1 << n): return e
        k = lo >> n
        if (hi >> n) == k: return f"(- {e} {_ilit(k << n)})" if k >= 0 else f"(+ {e} {_ilit(-(k << n))})"
        return f"(mod {e} {1 << n})"

    def _is(self, a):
        lo, hi = self.win[a.id]
        n = a.sort[1]
        h = 1 << (n - 1)
        e = self.ref(a)
        if lo >= -h and hi < h: return e
        k = (lo + h) >> n
        if ((hi + h) >> n) == k: return f"(- {e} {_ilit(k << n)})" if k >= 0 else f"(+ {e} {_ilit(-(k << n))})"
        return f"(- (mod (+ {e} {h}) {1 << n}) {h})"

    def _int_node(self, t):
        op, a = t.op, t.args
        if op == "const":
            if t.sort == BOOL: self.name[t.id] = "true" if t.p else "false"
            else: self.name[t.id] = _ilit(t.p)
            return
        if op == "var":
            self.name[t.id] = t.p
            return
        r = [self.ref(x) for x in a]
        if t.sort == BOOL:
            if op in ("and", "or"): b = f"({op} {' '.join(r)})"
            elif op == "not": b = f"(not {r[0]})"
            elif op == "ite": b = f"(ite {r[0]} {r[1]} {r[2]})"
            elif op == "eq":
                if is_bv(a[0].sort):
                    n = a[0].sort[1]
                    (la, ha), (lb, hb) = self.win[a[0].id], self.win[a[1].id]
                    if max(ha, hb) - min(la, lb) < (1 << n): b = f"(= {r[0]} {r[1]})"
                    else: b = f"(= {self._iu(a[0])} {self._iu(a[1])})"
                else: b = f"(= {r[0]} {r[1]})"
            elif op == "ult": b = f"(< {self._iu(a[0])} {self._iu(a[1])})"
            elif op == "ule": b = f"(<= {self._iu(a[0])} {self._iu(a[1])})"
            elif op == "slt": b = f"(< {self._is(a[0])} {self._is(a[1])})"
            elif op == "sle": b = f"(<= {self._is(a[0])} {self._is(a[1])})"
            elif op == "ilt": b = f"(< {r[0]} {r[1]})"
            elif op == "ile": b = f"(<= {r[0]} {r[1]})"
            else: raise NotEncodable("int emit: bool op " + op)
            return self._def(t, "Bool", b)
        if t.sort == INT:
            if op == "bv2nat": b = self._iu(a[0])
            elif op == "sbv2int": b = self._is(a[0])
            elif op == "iadd": b = f"(+ {' '.join(r)})"
            elif op == "isub": b = f"(- {r[0]} {r[1]})"
            elif op == "imul": b = f"(* {' '.join(r)})"
            elif op == "idiv": b = f"(div {r[0]} {r[1]})"
            elif op == "imod": b = f"(mod {r[0]} {r[1]})"
            elif op == "ite": b = f"(ite {r[0]} {r[1]} {r[2]})"
            else: raise NotEncodable("int emit: int op " + op)
            return self._def(t, "Int", b)
        # machine value
        n = t.sort[1]
        plan = self.plan.get(t.id)
        if op in ("bvadd", "bvsub", "bvmul"):
            # same choice of representative as in the window analysis
            r = [(_ilit(x.p - (1 << n)) if isconst(x) and x.p >= (1 << (n - 1)) else rx) for x, rx in zip(a, r)]
        if op == "bvadd": b = f"(+ {r[0]} {r[1]})"
        elif op == "bvsub": b = f"(- {r[0]} {r[1]})"
        elif op == "bvmul": b = f"(* {r[0]} {r[1]})"
        elif op == "bvneg": b = f"(- {r[0]})"
        elif op == "bvnot": b = f"(- (- 1) {r[0]})"
        elif op == "bvshl" and isconst(a[1]): b = f"(* {r[0]} {1 << a[1].p})" if a[1].p < n else "0"
        elif op == "bvlshr" and isconst(a[1]): b = f"(div {self._iu(a[0])} {1 << a[1].p})" if a[1].p < n else "0"
        elif op == "bvashr" and isconst(a[1]): b = f"(div {self._is(a[0])} {1 << min(a[1].p, n - 1)})"
        elif op == "zext": b = self._iu(a[0])
        elif op == "sext": b = self._is(a[0])
        elif op == "extract":
            hi_, lo_ = t.p
            if lo_ == 0: b = r[0]
            else: b = f"(div {self._iu(a[0])} {1 << lo_})"
        elif op == "concat": b = f"(+ (* {self._iu(a[0])} {1 << a[1].sort[1]}) {self._iu(a[1])})"
        elif op == "ite":
            if plan == "norm-args": b = f"(ite {r[0]} {self._iu(a[1])} {self._iu(a[2])})"
            else: b = f"(ite {r[0]} {r[1]} {r[2]})"
            plan = None
        elif op == "bvand" and plan != "fallback":
            if isinstance(plan, tuple): b = f"(mod {r[0]} {1 << plan[1]})"
            else: b = r[0]
            plan = None
        elif plan == "fallback":
            self.fallbacks += 1
            smt = {"bvand": "bvand", "bvor": "bvor", "bvxor": "bvxor", "bvshl": "bvshl", "bvlshr": "bvlshr", "bvashr": "bvashr",
                   "bvudiv": "bvudiv", "bvurem": "bvurem"}[op]
            b = f"(bv2nat ({smt} ((_ int2bv {n}) {r[0]}) ((_ int2bv {n}) {r[1]})))"
            plan = None
        else:
            raise NotEncodable("int emit: bv op " + op)
        if plan == "mod": b = f"(mod {b} {1 << n})"
        self._def(t, "Int", b)

    # ---- BV mode ---------------------------------------------------------------------------------------
    def _bv_int_width(self):
        W = 8
        for t in self.order:
            if t.sort == INT:
                r = self.irng[t.id]
                if r is None:
                    raise NotEncodable(f"bv mode: unbounded mathematical integer {t!r}")
                # ring operations may wrap modulo 2^W harmlessly; every node that is compared / divided is itself covered here
                W = max(W, _bits(max(abs(r[0]), abs(r[1]))) + 2)
        return W

    def _bv_node(self, t):
        op, a = t.op, t.args
        W = self.W
        if op == "const":
            if t.sort == BOOL: self.name[t.id] = "true" if t.p else "false"
            elif t.sort == INT: self.name[t.id] = _bvlit(t.p, W)
            else: self.name[t.id] = _bvlit(t.p, t.sort[1])
            return
        if op == "var":
            self.name[t.id] = t.p
            return
        r = [self.ref(x) for x in a]
        if t.sort == BOOL:
            if op in ("and", "or"): b = f"({op} {' '.join(r)})"
            elif op == "not": b = f"(not {r[0]})"
            elif op == "ite": b = f"(ite {r[0]} {r[1]} {r[2]})"
            elif op == "eq": b = f"(= {r[0]} {r[1]})"
            elif op == "ult": b = f"(bvult {r[0]} {r[1]})"
            elif op == "ule": b = f"(bvule {r[0]} {r[1]})"
            elif op in ("slt", "ilt"): b = f"(bvslt {r[0]} {r[1]})"
            elif op in ("sle", "ile"): b = f"(bvsle {r[0]} {r[1]})"
            else: raise NotEncodable("bv emit: bool op " + op)
            return self._def(t, "Bool", b)
        if t.sort == INT:
            if op == "bv2nat": b = f"((_ zero_extend {W - a[0].sort[1]}) {r[0]})"
            elif op == "sbv2int": b = f"((_ sign_extend {W - a[0].sort[1]}) {r[0]})"
            elif op == "iadd":
                b = r[0]
                for x in r[1:]: b = f"(bvadd {b} {x})"
            elif op == "isub": b = f"(bvsub {r[0]} {r[1]})"
            elif op == "imul":
                c, b = 1, None
                for x, xr in zip(a, r):
                    if isconst(x): c *= x.p
                    elif b is None: b = xr
                    else: b = f"(bvmul {b} {xr})"
                if b is None: b = _bvlit(c, W)
                elif c != 1:
                    if c > 0 and (c & (c - 1)) == 0: b = f"(bvshl {b} {_bvlit(c.bit_length() - 1, W)})"
                    else: b = f"(bvmul {_bvlit(c, W)} {b})"
            elif op == "imod":
                if not (isconst(a[1]) and a[1].p > 0): raise NotEncodable("bv mode: mod by non-constant")
                lo = self.irng[a[0].id][0]
                b = f"(bvurem {r[0]} {r[1]})" if lo >= 0 else f"(bvsmod {r[0]} {r[1]})"
            elif op == "idiv":
                if not (isconst(a[1]) and a[1].p > 0 and self.irng[a[0].id][0] >= 0):
                    raise NotEncodable("bv mode: div of possibly negative / by non-constant")
                b = f"(bvudiv {r[0]} {r[1]})"
            elif op == "ite": b = f"(ite {r[0]} {r[1]} {r[2]})"
            else: raise NotEncodable("bv emit: int op " + op)
            return self._def(t, f"(_ BitVec {W})", b)
        n = t.sort[1]
        if op in ("bvadd", "bvsub", "bvmul", "bvand", "bvor", "bvxor", "bvshl", "bvlshr", "bvashr", "bvudiv", "bvurem"):
            b = f"({op} {r[0]} {r[1]})"
        elif op in ("bvnot", "bvneg"): b = f"({op} {r[0]})"
        elif op == "zext": b = f"((_ zero_extend {n - a[0].sort[1]}) {r[0]})"
        elif op == "sext": b = f"((_ sign_extend {n - a[0].sort[1]}) {r[0]})"
        elif op == "extract": b = f"((_ extract {t.p[0]} {t.p[1]}) {r[0]})"
        elif op == "concat": b = f"(concat {r[0]} {r[1]})"
        elif op == "ite": b = f"(ite {r[0]} {r[1]} {r[2]})"
        else: raise NotEncodable("bv emit: bv op " + op)
        self._def(t, f"(_ BitVec {n})", b)

    # ---- driver --------------------------------------------------------------------------------------------
    def text(self, get_model=True):
        self.analyse()
        out = ["(set-logic ALL)"]
        if get_model: out.append("(set-option :produce-models true)")
        decl_extra = []
        if self.mode == "bv":
            self.W = self._bv_int_width()
        for v in self.vars:
            if self.mode == "int":
                if v.sort == BOOL: out.append(f"(declare-const {v.p} Bool)")
                else:
                    out.append(f"(declare-const {v.p} Int)")
                    if is_bv(v.sort):
                        lo, hi = self.win_of_var(v)
                        decl_extra.append(f"(assert (and (<= {_ilit(lo)} {v.p}) (<= {v.p} {_ilit(hi)})))")
                    elif v.p in self.bounds:
                        lo, hi = self.bounds[v.p]
                        decl_extra.append(f"(assert (and (<= {_ilit(lo)} {v.p}) (<= {v.p} {_ilit(hi)})))")
            else:
                if v.sort == BOOL: out.append(f"(declare-const {v.p} Bool)")
                elif v.sort == INT:
                    if v.p not in self.bounds: raise NotEncodable("bv mode: unbounded integer variable " + v.p)
                    lo, hi = self.bounds[v.p]
                    out.append(f"(declare-const {v.p} (_ BitVec {self.W}))")
                    decl_extra.append(f"(assert (and (bvsle {_bvlit(lo, self.W)} {v.p}) (bvsle {v.p} {_bvlit(hi, self.W)})))")
                else:
                    n = v.sort[1]
                    out.append(f"(declare-const {v.p} (_ BitVec {n}))")
                    if v.p in self.bounds:
                        lo, hi = self.bounds[v.p]
                        decl_extra.append(f"(assert (and (bvule {_bvlit(lo, n)} {v.p}) (bvule {v.p} {_bvlit(hi, n)})))")
        out += decl_extra
        for t in self.order:
            if self.mode == "int": self._int_node(t)
            else: self._bv_node(t)
        out += self.lines
        for a in self.assumptions:
            out.append(f"(assert {self.ref(a)})")
        g = self.ref(self.goal)
        out.append(f"(assert (not {g}))" if self.negate else f"(assert {g})")
        out.append("(check-sat)")
        if get_model and self.vars:
            out.append("(get-value (" + " ".join(v.p for v in self.vars) + "))")
        return "\n".join(out) + "\n"

    def win_of_var(self, v):
        n = v.sort[1]
        return self.bounds.get(v.p, (0, (1 << n) - 1))


def smt(mode, assumptions, goal, bounds=None, negate=True, get_model=True):
    return Emit(mode, assumptions, goal, bounds, negate).text(get_model)


# ---- model parsing ----------------------------------------------------------------------------------
_TOK = re.compile(r"\(|\)|[^\s()]+")


def parse_values(text):
    """parse the answer of (get-value (...)) -> {name: int|bool}.  Accepts #x.., #b.., (_ bvN w), decimal, (- n)."""
    i = text.find("((")
    if i < 0: return {}
    toks = _TOK.findall(text[i:])
    pos = [0]

    def sexp():
        t = toks[pos[0]]
        pos[0] += 1
        if t == "(":
            lst = []
            while toks[pos[0]] != ")":
                lst.append(sexp())
            pos[0] += 1
            return lst
        return t

    def val(x):
        if isinstance(x, str):
            if x.startswith("#x"): return int(x[2:], 16)
            if x.startswith("#b"): return int(x[2:], 2)
            if x == "true": return True
            if x == "false": return False
            return int(x)
        if len(x) == 2 and x[0] == "-": return -val(x[1])
        if len(x) == 3 and x[0] == "_" and isinstance(x[1], str) and x[1].startswith("bv"): return int(x[1][2:])
        raise ValueError(f"cannot read model value {x}")

    out = {}
    try:
        top = sexp()
        for pair in top:
            out[pair[0]] = val(pair[1])
    except (IndexError, ValueError):
        return {}
    return out
