"""Engine M runner: regenerates the MIR dumps from /repo's current working tree, builds the obligations' SMT queries
(two encodings), validates the translator against native execution, runs the solver portfolio, lifts and natively
replays counterexamples.

    python3-vt -m vf.mirsmt.runner C07 quick [--only substr] [--jobs N]
"""
import glob, hashlib, json, os, random, re, shutil, subprocess, sys, threading, time, zlib
from concurrent.futures import ThreadPoolExecutor

from . import terms as S
from . import translate as X
from .terms import NotEncodable

VERIF = os.path.dirname(os.path.dirname(os.path.dirname(os.path.abspath(__file__))))
REPO = os.environ.get("VERIF_REPO", "/repo")
from .. import common as _C
BUILD = _C.BUILD
MIRDIR = os.path.join(BUILD, "mir")
QROOT = os.path.join(BUILD, "mirsmt")
QDIR = os.path.join(QROOT, f"run-{os.getpid()}")     # per process: concurrent runs must not overwrite each other's query files
REPLAY_SRC = os.path.join(VERIF, "replay")
TIMEOUTS = {"quick": 120, "thorough": 900}
SOLVERS = [("z3-new", ["z3-new"]), ("z3", ["/usr/bin/z3"]), ("cvc5", ["cvc5", "--lang", "smt2"])]
# order in which the six (solver, encoding) pairs of a query are started
ORDER = [("z3-new", "int"), ("z3", "bv"), ("cvc5", "int"), ("z3-new", "bv"), ("cvc5", "bv"), ("z3", "int")]
_lock = threading.Lock()


def seed():
    try:
        return int(os.environ.get("VERIF_SEED", "1"))
    except ValueError:
        return 1


def log(*a):
    print(*a, flush=True)


# =================================================================================================
# MIR dumps (regenerated from the current working tree, cached per process)
_prog = {}
CRATES = {"math": "winter-math", "crypto": "winter-crypto"}


def dump_mir(crate):
    """cargo +nightly rustc -- -Zunpretty=mir into our own target dir.  A re-run prints nothing unless the crate is
    rebuilt, so the crate's fingerprint in OUR target dir is removed first (nothing under /repo is touched)."""
    os.makedirs(MIRDIR, exist_ok=True)
    tdir = os.path.join(MIRDIR, "target-" + crate)
    for d in glob.glob(os.path.join(tdir, "debug", ".fingerprint", CRATES[crate] + "-*")):
        shutil.rmtree(d, ignore_errors=True)
    out = os.path.join(MIRDIR, crate + ".mir")
    env = dict(os.environ, CARGO_NET_OFFLINE="true")
    env.pop("RUSTFLAGS", None)
    cmd = ["cargo", "+nightly", "rustc", "--offline", "--lib", "--target-dir", tdir, "--",
           "-Zunpretty=mir", "-C", "debug-assertions=off", "-C", "overflow-checks=on"]
    p = subprocess.run(cmd, cwd=os.path.join(REPO, crate), env=env, capture_output=True, text=True, timeout=600)
    if p.returncode != 0 or len(p.stdout) < 1000:
        raise RuntimeError(f"MIR dump of {crate} failed (rc={p.returncode}): {p.stderr[-800:]}")
    with open(out + ".tmp", "w") as f:
        f.write(p.stdout)
    os.replace(out + ".tmp", out)
    return out


def program():
    """Program over the math and crypto dumps of the CURRENT /repo tree (one dump per process)"""
    with _lock:
        if "p" in _prog:
            return _prog["p"]
        t0 = time.time()
        res = {}

        def job(c):
            try:
                res[c] = dump_mir(c)
            except Exception as e:  # noqa
                res[c] = e
        th = [threading.Thread(target=job, args=(c,)) for c in CRATES]
        [t.start() for t in th]
        [t.join() for t in th]
        for c in CRATES:
            if isinstance(res[c], Exception):
                raise res[c]
        S.reset()
        S._init_consts()
        p = X.Program(REPO)
        p.load(res["crypto"], "crypto")   # crypto first: its own names win; math supplies callees (fft4_real, field ops)
        p.load(res["math"], "math")
        _prog["p"] = p
        _prog["dump_time"] = time.time() - t0
        return p


# =================================================================================================
# native replay binary
_bins = {}


def _replay_crate():
    if REPO == "/repo":
        return REPLAY_SRC
    # same crate with the path dependencies / #[path] includes pointed at the alternative tree
    d = os.path.join(BUILD, "replay-alt-" + hashlib.sha1(REPO.encode()).hexdigest()[:8])
    os.makedirs(os.path.join(d, "src"), exist_ok=True)
    os.makedirs(os.path.join(d, ".cargo"), exist_ok=True)
    for rel in ["Cargo.toml", "src/main.rs", ".cargo/config.toml", "Cargo.lock"]:
        src = os.path.join(REPLAY_SRC, rel)
        if os.path.exists(src):
            txt = open(src).read().replace('"/repo/', '"' + REPO.rstrip("/") + "/")
            old = open(os.path.join(d, rel)).read() if os.path.exists(os.path.join(d, rel)) else None
            if old != txt:
                open(os.path.join(d, rel), "w").write(txt)
    return d


def replay_bin(profile="release"):
    with _lock:
        if profile in _bins:
            return _bins[profile]
        crate = _replay_crate()
        lock = os.path.join(crate, "Cargo.lock")
        if not os.path.exists(lock) and os.path.exists(os.path.join(REPO, "Cargo.lock")):
            shutil.copy(os.path.join(REPO, "Cargo.lock"), lock)     # pin the dependency versions the repository pins (offline)
        tdir = os.path.join(BUILD, "replay-target")
        env = dict(os.environ, CARGO_NET_OFFLINE="true")
        env.pop("RUSTFLAGS", None)
        cmd = ["cargo", "build", "--offline", "--target-dir", tdir] + (["--release"] if profile == "release" else [])
        p = subprocess.run(cmd, cwd=crate, env=env, capture_output=True, text=True, timeout=1200)
        if p.returncode != 0:
            raise RuntimeError("replay binary build failed: " + p.stderr[-1500:])
        b = os.path.join(tdir, profile if profile == "release" else "debug", "wf-replay")
        _bins[profile] = b
        return b


def native(lines, profile="release", timeout=120):
    """send request lines to the replay binary -> list of token lists (['ok', '1', ...] / ['panic', ..] / ['err', ..])"""
    if not lines:
        return []
    b = replay_bin(profile)
    p = subprocess.run([b], input="\n".join(lines) + "\n", capture_output=True, text=True, timeout=timeout)
    out = [l.split() for l in p.stdout.strip().split("\n")] if p.stdout.strip() else []
    if len(out) != len(lines):
        raise RuntimeError(f"replay binary answered {len(out)} of {len(lines)} requests (rc={p.returncode}) {p.stderr[-300:]}")
    return out


# =================================================================================================
class Query:
    def __init__(self, name, assumptions, goal, bounds=None, encodings=("bv", "int"), locate=None, timeout=None):
        """prove: assumptions => goal.  locate: optional list of (label, term) -- on sat the first label whose term
        evaluates to False under the model names the failing conjunct."""
        self.name, self.assumptions, self.goal = name, list(assumptions), goal
        self.bounds = dict(bounds or {})
        self.encodings = tuple(encodings)
        self.locate = locate or []
        self.timeout = timeout
        self.texts = {}
        self.emit_notes = []
        self.cover = False      # vacuity twin: `assumptions => false` must come back SAT (the assumptions are consistent)


class Validation:
    """translator validation of one encoded function: request = prefix + values of `vars`; the native answer's first
    len(outs) numbers must equal the python evaluation of `outs` (and the solver evaluation on a few samples)."""

    def __init__(self, prefix, vars, outs, ranges, special=(), fixed=None, n=200, profile="release", pre=None,
                 line_fn=None, check=None):
        self.line_fn = line_fn            # env -> request line (default: prefix + values of vars)
        self.check = check                # (env, encoding values, native numbers) -> bool ; default: equality
        self.prefix, self.vars, self.outs = prefix, list(vars), list(outs)
        self.ranges = dict(ranges)        # var -> (lo, hi) inclusive
        self.special = list(special)      # extra boundary values tried for every variable (clipped to its range)
        self.fixed = fixed or []          # explicit env dicts always included
        self.n = n
        self.profile = profile
        self.pre = pre                    # optional python predicate env -> bool (sample filter)


class NotLiftable(Exception):
    """raised by a lift() that examined the model natively and found no public-level witness; the text goes into the note"""


class Replay:
    """natively re-executable counterexample: request lines + a declarative predicate over the answers"""

    def __init__(self, lines, expect, where, what, profile="release"):
        self.lines, self.expect, self.where, self.what, self.profile = lines, expect, where, what, profile

    def to_json(self):
        return {"lines": self.lines, "expect": self.expect, "where": self.where, "what": self.what, "profile": self.profile}


class Built:
    def __init__(self, queries, functions, validations=(), lift=None, relift=None, note=""):
        self.queries, self.functions = list(queries), list(functions)
        self.validations = list(validations)
        self.lift = lift          # (query, env) -> Replay | None
        self.relift = relift      # () -> Built  : the same obligation without kernel abstraction (public operands)
        self.note = note


class Obligation:
    def __init__(self, name, prop, desc, bounds, build, required=True, deps=(), timeout=None):
        self.name, self.prop, self.desc, self.bounds = name, prop, desc, bounds
        self.required = required
        self.build = build        # (prog) -> Built
        self.deps = list(deps)    # Obligations (lemmas) this one is composed with
        self.timeout = timeout

    def __repr__(self):
        return f"Obligation({self.name})"


# =================================================================================================
def eval_expect(expect, answers):
    """declarative predicate language for replays (JSON-serialisable)"""
    k = expect["kind"]
    if k == "all":
        return all(eval_expect(e, answers) for e in expect["of"])
    if k == "any":
        return any(eval_expect(e, answers) for e in expect["of"])
    a = answers[expect.get("line", 0)]
    if k == "panic":
        return a[0] == "panic"
    if a[0] != "ok":
        return False
    if k in ("tok_ge", "tok_eq", "tok_ne", "tok_lt"):
        v = int(a[1 + expect["index"]])
        w = int(expect["value"])
        return {"tok_ge": v >= w, "tok_eq": v == w, "tok_ne": v != w, "tok_lt": v < w}[k]
    if k == "tok_mod_ne":
        return int(a[1 + expect["index"]]) % int(expect["mod"]) != int(expect["value"])
    if k == "lines_differ":
        b = answers[expect["other"]]
        return b[0] == "ok" and a[1:] != b[1:]
    if k == "lines_differ_mod":
        b = answers[expect["other"]]
        m = int(expect["mod"])
        return b[0] == "ok" and [int(x) % m for x in a[1:]] != [int(x) % m for x in b[1:]]
    raise ValueError("unknown expectation " + k)


def run_replay(rp):
    ans = native(rp["lines"] if isinstance(rp, dict) else rp.lines, profile=(rp["profile"] if isinstance(rp, dict) else rp.profile))
    exp = rp["expect"] if isinstance(rp, dict) else rp.expect
    return eval_expect(exp, ans), ans


def replay_file(path):
    """re-run a stored counterexample (evidence/replays json written by vf.main) against the CURRENT tree.
    returns 1 if the misbehaviour reproduces, 0 otherwise (2: file unusable)."""
    try:
        d = json.load(open(path))
    except Exception as e:  # noqa
        print("cannot read", path, e)
        return 2
    rp = d.get("replay") or d
    if not isinstance(rp, dict) or "lines" not in rp:
        print("no native replay recorded in", path)
        return 2
    ok, ans = run_replay(rp)
    for l, a in zip(rp["lines"], ans):
        print("  >", l)
        print("  <", " ".join(a))
    print("expectation:", json.dumps(rp["expect"]))
    print("REPRODUCED" if ok else "NOT REPRODUCED", "-", rp.get("what", ""))
    return 1 if ok else 0


# =================================================================================================
# translator validation
def _samples(v, rng):
    envs = [dict(e) for e in v.fixed]
    names = v.vars
    cand = {}
    for nm in names:
        lo, hi = v.ranges[nm]
        c = {lo, hi, min(lo + 1, hi), max(hi - 1, lo), (lo + hi) // 2}
        for s in v.special:
            for d in (-2, -1, 0, 1, 2):
                if lo <= s + d <= hi:
                    c.add(s + d)
        cand[nm] = sorted(c)
    # boundary combinations: each variable at a boundary value, the others at boundary values chosen by the seed
    for nm in names:
        for b in cand[nm]:
            e = {o: rng.choice(cand[o]) for o in names}
            e[nm] = b
            envs.append(e)
    while len(envs) < v.n + len(v.fixed):
        e = {}
        for nm in names:
            lo, hi = v.ranges[nm]
            r = rng.random()
            if r < 0.6:
                e[nm] = rng.randint(lo, hi)
            elif r < 0.8:
                e[nm] = rng.choice(cand[nm])
            else:   # structured: few significant bits set
                x = rng.getrandbits(max((hi - lo).bit_length(), 1)) & rng.getrandbits(max((hi - lo).bit_length(), 1))
                e[nm] = lo + x % (hi - lo + 1)
        envs.append(e)
    if v.pre:
        envs = [e for e in envs if v.pre(e)]
    return envs


def _lit(mode, sort, v):
    if sort == S.BOOL:
        return "true" if v else "false"
    if mode == "int" or sort == S.INT:
        return S._ilit(int(v)) if mode == "int" else None
    return S._bvlit(int(v), sort[1])


def validate(ob, built, rng, qdir):
    """-> (ok, note, n_points).  python evaluation of the encoding on ~200 inputs + solver evaluation (both encodings)
    on a few, against the real code."""
    total = 0
    scripts = []
    for vi, v in enumerate(built.validations):
        envs = _samples(v, rng)
        lines = [v.line_fn(e) if v.line_fn else v.prefix + " " + " ".join(str(e[nm]) for nm in v.vars) for e in envs]
        ans = native(lines, profile=v.profile)
        expected = []
        for e, a, l in zip(envs, ans, lines):
            if a[0] != "ok":
                return False, f"native execution failed on `{l}`: {' '.join(a)[:120]}", total
            try:
                got = S.evaluate(v.outs, e)
            except Exception as ex:  # noqa
                return False, f"encoding cannot be evaluated on `{l}`: {ex}", total
            want = [int(x) for x in a[1:1 + len(v.outs)]]
            if len(want) != len(v.outs):
                return False, f"native answer too short for `{l}`", total
            if v.check:
                if not v.check(e, [int(g) for g in got], [int(x) for x in a[1:]]):
                    return False, f"TRANSLATOR MISMATCH on `{l}`: native {a[1:]} encoding {[int(g) for g in got]}", total
                expected.append(want)
                total += 1
                continue
            if [int(g) for g in got] != want:
                return False, f"TRANSLATOR MISMATCH on `{l}`: native {want} encoding {[int(g) for g in got]}", total
            expected.append(want)
            total += 1
        if v.check:
            continue
        # solver-level check of both encodings on a few points
        k = min(6, len(envs))
        pick = list(range(min(3, len(envs)))) + rng.sample(range(len(envs)), k - min(3, k)) if len(envs) > 3 else list(range(len(envs)))
        for mode in ("bv", "int"):
            for i in pick:
                try:
                    goal = S.And(*[S.Eq(o, S.const(o.sort, expected[i][j])) for j, o in enumerate(v.outs)])
                    if S.isconst(goal):
                        continue
                    em = S.Emit(mode, [], goal, bounds={nm: v.ranges[nm] for nm in v.vars})
                    txt = em.text(get_model=False)
                except NotEncodable:
                    continue
                # fix the inputs: declare-const x -> define-fun x () <sort> <value>: the solver evaluates a ground formula
                for nm in v.vars:
                    so = _sort_of(v, nm)
                    txt = re.sub(r"\(declare-const " + re.escape(nm) + r" ([^\n]*)\)\n",
                                 lambda m: f"(define-fun {nm} () {m.group(1)} {_lit(mode, so, envs[i][nm])})\n", txt)
                path = os.path.join(qdir, f"{ob.name}__val{vi}_{i}__{mode}.smt2")
                open(path, "w").write(txt)
                scripts.append(path)
    bad = []

    def chk(path):
        try:
            p = subprocess.run(["z3-new", path], capture_output=True, text=True, timeout=60)
        except subprocess.TimeoutExpired:
            bad.append((path, "timeout"))
            return
        res = [l for l in p.stdout.split("\n") if l.strip()]
        if res != ["unsat"]:
            bad.append((path, p.stdout[:200]))
    with ThreadPoolExecutor(max_workers=8) as pool:
        list(pool.map(chk, scripts))
    if bad:
        return False, f"solver-level validation failed ({os.path.basename(bad[0][0])}): {bad[0][1]}", total
    return True, "", total


def _sort_of(v, nm):
    for o in v.outs:
        for t in S.topo([o]):
            if t.op == "var" and t.p == nm:
                return t.sort
    lo, hi = v.ranges[nm]
    return S.BV(64)


# =================================================================================================
# solver portfolio
class _Task:
    def __init__(self, ob, q, solver, enc, path, timeout):
        self.ob, self.q, self.solver, self.enc, self.path, self.timeout = ob, q, solver, enc, path, timeout
        self.res, self.time, self.out = None, 0.0, ""


class _QState:
    def __init__(self):
        self.results = []     # (solver, enc, res, time, model)
        self.decided_at = None
        self.grace = 0.0
        self.lock = threading.Lock()


def _classify(out):
    lines = [l.strip() for l in out.split("\n") if l.strip()]
    status = None
    for l in lines:
        if l in ("sat", "unsat", "unknown"):
            status = l
            break
    errs = [l for l in lines if l.startswith("(error")]
    if status == "unsat":
        errs = [e for e in errs if not re.search(r"model is not available|Cannot get value|cannot get value|no model", e, re.I)]
    if errs:
        return "error"
    return status or "error"


def _run_task(task, qs):
    with qs.lock:
        if qs.decided_at is not None and time.time() > qs.decided_at + qs.grace:
            task.res = "skipped"
            return task
    cmd = dict(SOLVERS)[task.solver] + [task.path]
    t0 = time.time()
    try:
        p = subprocess.Popen(cmd, stdout=subprocess.PIPE, stderr=subprocess.STDOUT, text=True)
    except OSError as e:
        task.res, task.out = "error", str(e)
        return task
    while True:
        try:
            out, _ = p.communicate(timeout=0.05)
            task.out = out
            task.res = _classify(out)
            break
        except subprocess.TimeoutExpired:
            now = time.time()
            kill = now - t0 > task.timeout
            with qs.lock:
                if qs.decided_at is not None and now > qs.decided_at + qs.grace:
                    kill = True
                    task.res = "cancelled"
            if kill:
                p.kill()
                try:
                    p.communicate(timeout=5)
                except Exception:  # noqa
                    pass
                task.res = task.res or "timeout"
                break
    task.time = time.time() - t0
    if task.res in ("sat", "unsat"):
        with qs.lock:
            qs.results.append(task)
            if qs.decided_at is None:
                qs.decided_at = time.time()
                qs.grace = min(10.0, max(1.5, 2.0 * task.time))
    else:
        with qs.lock:
            qs.results.append(task)
    return task


# =================================================================================================
def _emit_queries(ob, built, qdir):
    n = 0
    # vacuity twins: every query that assumes something (lemma post-conditions, fixed inputs) gets a twin asking whether the
    # assumptions + bounds are satisfiable at all; an unsat twin means the query proves nothing
    twins = []
    for q in built.queries:
        if q.assumptions and not q.cover and not any(x.cover and x.name == q.name + "__cover" for x in built.queries):
            t = Query(q.name + "__cover", q.assumptions, S.FALSE, q.bounds, q.encodings, timeout=min(q.timeout or 60, 60))
            t.cover = True
            twins.append(t)
    built.queries += twins
    for q in built.queries:
        for enc in q.encodings:
            try:
                em = S.Emit(enc, q.assumptions, q.goal, q.bounds)
                txt = em.text()
                q.texts[enc] = (txt, em)
                if em.fallbacks:
                    q.emit_notes.append(f"{enc}: {em.fallbacks} bitwise op(s) through int2bv")
                n += 1
            except NotEncodable as e:
                q.emit_notes.append(f"{enc} encoding unavailable: {e}")
        if not q.texts:
            raise NotEncodable(f"query {q.name}: no encoding available ({'; '.join(q.emit_notes)})")
        for enc, (txt, _) in q.texts.items():
            path = os.path.join(qdir, f"{ob.name}__{q.name}__{enc}.smt2")
            open(path, "w").write(txt)
    return n


def _decode_model(task, q):
    txt, em = q.texts[task.enc]
    m = S.parse_values(task.out)
    env = {}
    for v in em.vars:
        if v.p not in m:
            return None
        x = m[v.p]
        if v.sort == S.INT and task.enc == "bv" and isinstance(x, int) and em.W and x >= (1 << (em.W - 1)):
            x -= 1 << em.W
        env[v.p] = x
    return env


def _check_model(q, env):
    """the model must satisfy the assumptions and falsify the goal under the term semantics (guards the emitters)"""
    try:
        vals = S.evaluate(q.assumptions + [q.goal], env)
    except Exception as e:  # noqa
        return False, str(e)
    for (k, b) in q.bounds.items():
        if k in env and not (b[0] <= env[k] <= b[1]):
            return False, f"bound of {k} violated"
    if not all(vals[:-1]):
        return False, "an assumption is false under the model"
    if vals[-1]:
        return False, "the goal is true under the model"
    return True, ""


def _decide(qs):
    sat = [t for t in qs.results if t.res == "sat"]
    uns = [t for t in qs.results if t.res == "unsat"]
    if sat and uns:
        return "disagree", None
    if uns:
        return "unsat", min(uns, key=lambda t: t.time)
    if sat:
        return "sat", min(sat, key=lambda t: t.time)
    return "unknown", None


def _solve(items, tier, jobs, tag=""):
    """items: list of (ob, built).  runs every query of every item through the portfolio. -> {(ob.name, q.name): _QState}"""
    tasks, states = [], {}
    for ob, built in items:
        for q in built.queries:
            qs = _QState()
            states[(ob.name, q.name)] = qs
            to = q.timeout or ob.timeout or TIMEOUTS.get(tier, 120)
            for rank, (sv, enc) in enumerate(ORDER):
                if enc in q.texts:
                    path = os.path.join(QDIR, f"{ob.name}__{q.name}__{enc}.smt2")
                    tasks.append((rank, _Task(ob, q, sv, enc, path, to), qs))
    tasks.sort(key=lambda x: x[0])
    with ThreadPoolExecutor(max_workers=max(1, jobs)) as pool:
        futs = [pool.submit(_run_task, t, qs) for _, t, qs in tasks]
        for f in futs:
            f.result()
    return states


def run_obligations(obs, tier, jobs):
    t_start = time.time()
    results = {}
    os.makedirs(QDIR, exist_ok=True)
    for d in glob.glob(os.path.join(QROOT, "run-*")):      # drop query directories of processes that are gone
        try:
            pid = int(d.rsplit("-", 1)[1])
            if pid != os.getpid() and not os.path.exists(f"/proc/{pid}"):
                shutil.rmtree(d, ignore_errors=True)
        except ValueError:
            pass
    try:
        prog = program()
        replay_bin("release")
    except Exception as e:  # noqa
        for o in obs:
            results[o.name] = {"status": "error", "queries": 0, "solvers": "", "time": 0.0, "solver_time": 0.0, "functions": [],
                               "note": "setup failed: " + str(e)[:400]}
        return results
    # lemmas an obligation is composed with are run too (even when filtered out by the caller)
    todo, seen = [], set()

    def add(o):
        if o.name in seen:
            return
        seen.add(o.name)
        for d in o.deps:
            add(d)
        todo.append(o)
    for o in obs:
        add(o)
    rng = random.Random(seed())
    built_items = []
    for o in todo:
        t0 = time.time()
        r = {"status": "unknown", "queries": 0, "solvers": "", "time": 0.0, "solver_time": 0.0, "functions": [], "note": ""}
        results[o.name] = r
        try:
            b = o.build(prog)
            r["functions"] = list(b.functions)
            r["queries"] = len(b.queries)
            _emit_queries(o, b, QDIR)
            notes = [n for q in b.queries for n in q.emit_notes]
            if b.note:
                notes.insert(0, b.note)
            ok, note, npts = validate(o, b, random.Random((seed() << 32) ^ zlib.crc32(o.name.encode())), QDIR)
            r["validation_points"] = npts
            if not ok:
                r["status"] = "error"
                r["note"] = note
                r["time"] = time.time() - t0
                continue
            r["note"] = "; ".join(notes)
            r["_build_time"] = time.time() - t0
            built_items.append((o, b))
        except NotEncodable as e:
            r["status"] = "not_encodable"
            r["note"] = str(e)[:400]
            r["time"] = time.time() - t0
        except Exception as e:  # noqa
            import traceback
            r["status"] = "error"
            r["note"] = "build failed: " + "".join(traceback.format_exception_only(type(e), e)).strip()[:400]
            r["time"] = time.time() - t0
    t_solve = time.time()
    states = _solve(built_items, tier, jobs)
    for o, b in built_items:
        r = results[o.name]
        won = {}
        stime = 0.0
        verdicts = []
        last = 0.0
        for q in b.queries:
            qs = states[(o.name, q.name)]
            v, t = _decide(qs)
            verdicts.append((q, v, t, qs))
            if t:
                won[f"{t.solver}/{t.enc}"] = won.get(f"{t.solver}/{t.enc}", 0) + 1
                stime += t.time
            fin = [x.time for x in qs.results]
            last = max([last] + fin)
        r["solver_time"] = round(stime, 3)
        r["solvers"] = " ".join(f"{k}:{n}" for k, n in sorted(won.items()))
        r["time"] = round(r.pop("_build_time", 0.0) + last, 3)
        r["per_query"] = {q.name: (v, f"{t.solver}/{t.enc}" if t else "", round(t.time, 2) if t else None) for q, v, t, _ in verdicts}
        if any(v == "disagree" for _, v, _, _ in verdicts):
            bad = [q.name for q, v, _, _ in verdicts if v == "disagree"]
            r["status"] = "unknown"
            det = []
            for q, v, _, qs in verdicts:
                if v == "disagree":
                    det += [f"{x.solver}/{x.enc}={x.res}" for x in qs.results if x.res in ("sat", "unsat")]
            r["note"] = ("!!! SOLVER DISAGREEMENT on query " + ",".join(bad) + " (" + " ".join(det) + ") -- treated as inconclusive; " + r["note"]).strip()
            log("[M] !!! SOLVER DISAGREEMENT", o.name, bad, det)
            continue
        covers = [(q, v) for q, v, t, _ in verdicts if q.cover]
        verdicts = [x for x in verdicts if not x[0].cover]
        r["queries"] = len(verdicts)
        vac = [q.name for q, v in covers if v == "unsat"]
        if vac:
            r["status"] = "error"
            r["note"] = ("VACUOUS: the assumptions of " + ",".join(vac) + " are unsatisfiable (nothing is proved); " + r["note"]).strip("; ")
            continue
        und_cov = [q.name for q, v in covers if v != "sat"]
        sats = [(q, t) for q, v, t, _ in verdicts if v == "sat"]
        if und_cov and not sats:
            r["status"] = "unknown"
            r["note"] = ("vacuity check undecided for " + ",".join(und_cov) + "; " + r["note"]).strip("; ")
            continue
        if sats:
            _handle_sat(o, b, sats, r, tier, jobs, prog)
            continue
        if all(v == "unsat" for _, v, _, _ in verdicts):
            r["status"] = "unsat"
        else:
            und = []
            for q, v, _, qs in verdicts:
                if v != "unsat":
                    und.append(q.name + "[" + ",".join(f"{x.solver}/{x.enc}:{x.res}" for x in qs.results) + "]")
            r["status"] = "unknown"
            r["note"] = ("undecided: " + " ".join(und) + "; " + r["note"]).strip("; ")
    # composition: an obligation proved relative to a lemma is only as good as the lemma
    for o in todo:
        r = results[o.name]
        if r["status"] == "unsat":
            bad = [d.name for d in o.deps if results.get(d.name, {}).get("status") != "unsat"]
            if bad:
                r["status"] = "unknown"
                r["note"] = (f"proved only relative to lemma(s) {bad} which did not come back unsat; " + r["note"]).strip("; ")
    for r in results.values():
        r.pop("_build_time", None)
    return results


def _handle_sat(o, b, sats, r, tier, jobs, prog):
    q, t = sats[0]
    env = _decode_model(t, q)
    r["queries_sat"] = [x.name for x, _ in sats]
    if env is None:
        r["status"] = "unknown"
        r["note"] = f"sat on {q.name} by {t.solver}/{t.enc} but the model could not be read; " + r["note"]
        return
    ok, why = _check_model(q, env)
    r["model"] = {k: (int(v) if not isinstance(v, bool) else v) for k, v in env.items()}
    if not ok:
        r["status"] = "unknown"
        r["note"] = f"sat on {q.name} by {t.solver}/{t.enc} but the model fails the term-level check ({why}): emitter/solver problem; " + r["note"]
        return
    where = q.name
    for label, term in q.locate:
        try:
            if not S.evaluate([term], env)[0]:
                where = f"{q.name}:{label}"
                break
        except Exception:  # noqa
            pass
    r["where"] = where
    rp = None
    if b.lift:
        try:
            rp = b.lift(q, env)
        except NotLiftable as e:
            r["note"] = f"{e}; " + r["note"]
        except Exception as e:  # noqa
            r["note"] = f"lift failed: {e}; " + r["note"]
    if rp is None and b.relift:
        # kernel-level model: ask again at the level of the public operation (no abstraction), then lift that model
        try:
            b2 = b.relift()
            _emit_queries(Obligation(o.name + "__lifted", o.prop, "", "", None), b2, QDIR)
            o2 = Obligation(o.name + "__lifted", o.prop, "", "", None, timeout=min(120, TIMEOUTS.get(tier, 120)))
            st2 = _solve([(o2, b2)], tier, jobs)
            for q2 in b2.queries:
                v2, t2 = _decide(st2[(o2.name, q2.name)])
                if v2 == "sat":
                    env2 = _decode_model(t2, q2)
                    if env2 is not None and _check_model(q2, env2)[0] and b2.lift:
                        rp = b2.lift(q2, env2)
                        r["model_kernel"] = r["model"]
                        r["model"] = {k: (int(v) if not isinstance(v, bool) else v) for k, v in env2.items()}
                        break
        except NotEncodable as e:
            r["note"] = f"re-asking at the public level is not encodable: {e}; " + r["note"]
    if rp is None:
        r["status"] = "unknown"
        r["note"] = ("kernel-level counterexample on " + where + " could not be lifted to an input of a public operation "
                     "(fails on an input no caller is known to pass); " + r["note"]).strip("; ")
        return
    r["where"] = rp.where
    try:
        ok, ans = run_replay(rp)
    except Exception as e:  # noqa
        r["status"] = "sat"
        r["reproduced"] = False
        r["note"] = f"native replay could not be run: {e}; " + r["note"]
        return
    r["status"] = "sat"
    r["reproduced"] = bool(ok)
    d = rp.to_json()
    d["answers"] = [" ".join(a) for a in ans]
    r["replay_out"] = d
    r["note"] = ((rp.what + " -- reproduced natively" if ok else rp.what + " -- did NOT reproduce natively (encoding suspect)") + "; " + r["note"]).strip("; ")


# =================================================================================================
def main(argv=None):
    import argparse, importlib
    ap = argparse.ArgumentParser()
    ap.add_argument("prop")
    ap.add_argument("tier", nargs="?", default="quick")
    ap.add_argument("--only", default=None)
    ap.add_argument("--jobs", type=int, default=int(os.environ.get("VERIF_JOBS", "16")))
    ap.add_argument("--json", default=None)
    a = ap.parse_args(argv)
    if a.prop.endswith(".json"):
        return replay_file(a.prop)
    pm = importlib.import_module(f"vf.props.{a.prop.lower()}")
    obs = pm.obligations(a.tier)
    if a.only:
        obs = [o for o in obs if any(x in o.name for x in a.only.split(","))]
    t0 = time.time()
    res = run_obligations(obs, a.tier, a.jobs)
    shown = set()
    for o in obs:
        r = res[o.name]
        shown.add(o.name)
        extra = ""
        if r["status"] == "sat":
            extra = f" where={r.get('where')} reproduced={r.get('reproduced')} model={json.dumps(r.get('model'))}"
        log(f"[M] {o.name:44s} {r['status']:13s} {r['time']:7.1f}s  q={r['queries']} {'req' if o.required else 'att'} {r['solvers']}{extra}")
        if r.get("note") and r["status"] != "unsat":
            log(f"      note: {r['note'][:600]}")
    for n, r in res.items():
        if n not in shown:
            log(f"[M] (lemma) {n:36s} {r['status']:13s} {r['time']:7.1f}s")
    cnt = {}
    for o in obs:
        cnt[res[o.name]["status"]] = cnt.get(res[o.name]["status"], 0) + 1
    log(f"[M] {a.prop} {a.tier}: {len(obs)} obligations {cnt} wall={time.time() - t0:.0f}s (MIR dump {_prog.get('dump_time', 0):.0f}s)")
    if a.json:
        json.dump(res, open(a.json, "w"), indent=1, default=str)
    return 0


if __name__ == "__main__":
    # run through the imported module so that there is exactly one instance of the caches / exception classes
    from vf.mirsmt import runner as _r
    sys.exit(_r.main())
