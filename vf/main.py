"""./check <property> [--tier quick|thorough] [--only substr] | ./check --replay <path>"""
import argparse, importlib, json, os, queue, re, subprocess, sys, time, shutil
from . import common as C
from . import kani as K


def gen_all():
    """regenerate harness families (kani/src/gen_*.rs) -- deterministic given VERIF_SEED"""
    from . import gen
    C.sync_alt()
    gen.generate_all()


def fail_key(h, f):
    return f"{h.name}|{os.path.basename(f['file'])}|{f['func']}|{f['desc'][:80]}"


def main(argv=None):
    ap = argparse.ArgumentParser()
    ap.add_argument("prop", nargs="?")
    ap.add_argument("--tier", default=os.environ.get("VERIF_TIER", "quick"))
    ap.add_argument("--only", default=None)
    ap.add_argument("--replay", default=None)
    ap.add_argument("--no-replay", action="store_true", help="skip concrete playback (debug)")
    ap.add_argument("--list", action="store_true")
    ap.add_argument("--to", type=int, default=None, help="override per-harness timeout (debug)")
    a = ap.parse_args(argv)
    if a.replay:
        return do_replay(a.replay)
    prop, tier = a.prop, a.tier
    C.DEBUG_RUN = bool(a.only or a.to or a.no_replay)
    t0 = time.time()
    # generation + discovery under one lock: concurrent ./check processes regenerate the same files
    import fcntl
    os.makedirs(C.BUILD, exist_ok=True)
    with open(os.path.join(C.BUILD, "gen.lock"), "w") as lk:
        fcntl.flock(lk, fcntl.LOCK_EX)
        gen_all()
        hs = [h for h in K.discover(prop) if tier == "thorough" or h.tier == "quick"]
    if a.only:
        hs = [h for h in hs if any(x in h.name for x in a.only.split(","))]
    if a.to:
        for h in hs:
            h.timeout = a.to
    smt_obs = []
    try:
        pm = importlib.import_module(f"vf.props.{prop.lower()}")
        smt_obs = pm.obligations(tier)
        if a.only:
            smt_obs = [o for o in smt_obs if a.only in o.name]
    except ModuleNotFoundError as e:
        if f"vf.props.{prop.lower()}" not in str(e):
            raise
    if a.list:
        for h in hs:
            print("K", h.full, h.tier, "req" if h.required else "attempt", h.timeout, h.expect)
        for o in smt_obs:
            print("M", o.name, "req" if o.required else "attempt")
        return 0
    if not hs and not smt_obs:
        C.log(f"no obligations for {prop}")
        return 2

    rows = []  # evidence samples
    strict_replay = set()  # harnesses whose native replay only counts when it panics at the reported harness location
    violations, known_hit, inconclusive, discharged = [], [], [], 0
    solver_time = 0.0
    funcs, stubs_used = set(), set()

    def on_done(h, r):
        C.log(f"[K] {h.full:60s} {r.status:9s} {r.time:7.1f}s  fails={len(r.failed)} covers={r.covers}")

    # ---- Engine M first (cheap), in a thread while Kani runs ---------------------------------
    import threading
    smt_results = {}

    def run_smt():
        if smt_obs:
            from .mirsmt import runner as MR
            smt_results.update(MR.run_obligations(smt_obs, tier, jobs=max(2, C.NCPU // 4) if hs else C.NCPU))

    th = threading.Thread(target=run_smt)
    th.start()
    results = K.run_all(hs, jobs=C.NCPU if not smt_obs else max(4, C.NCPU - 4), on_done=on_done) if hs else {}
    th.join()

    os.makedirs(os.path.join(C.BUILD, "logs"), exist_ok=True)
    for h in hs:
        r = results[h.full]
        with open(os.path.join(C.BUILD, "logs", h.name + ".log"), "w") as f:
            f.write(r.log)
        solver_time += r.verif_time or 0
        if h.funcs:
            funcs.update(x.strip() for x in h.funcs.split(","))
        row = {"engine": "kani", "harness": h.full, "required": h.required, "status": r.status,
               "checks": r.nchecks, "covers_satisfied": r.covers.get("SATISFIED", 0), "time_s": round(r.time, 1),
               "bounds": h.bounds, "symbolic": h.sym, "enumerated": h.enum, "desc": h.desc, "expect": h.expect}
        cov_bad = r.covers.get("UNSATISFIABLE", 0) + r.covers.get("UNREACHABLE", 0)
        forbid = h.kv.get("forbid")
        if h.expect == "fail" and forbid and r.status in ("failed", "success"):
            # refusal-style obligation: the code under test is EXPECTED to panic on part of the input space (those failed checks are
            # the refusals); the obligation is that the marker check(s) whose description contains `forbid` never fail.
            refuse_in = [x for x in h.kv.get("refuse_in", "").split(",") if x]
            # with refuse_in=<function-name substrings>, only panics inside those functions are refusals; a panic anywhere else
            # (e.g. later, in a consumer of the accepted value) is a failure of the obligation as well
            def is_bad(f):
                return forbid in f["desc"] or (refuse_in and not any(x in f["func"] for x in refuse_in))
            bad = [f for f in r.failed if is_bad(f)]
            other = [f for f in r.failed if not is_bad(f)]
            if bad:
                violations.append((h, r, bad))
                strict_replay.add(h.full)
                row["verdict"] = "violation-candidate"
                row["failed_checks"] = [fail_key(h, f) + f":{f['line']}" for f in bad][:8]
            elif cov_bad or not r.covers.get("SATISFIED", 0):
                inconclusive.append((h, "marker of the refusal obligation not reachable: vacuous"))
                row["verdict"] = "inconclusive"
            elif r.status == "failed" and other:
                discharged += 1
                row["verdict"] = "holds-within-bounds"
                row["expected_refusals"] = len(other)
            else:
                inconclusive.append((h, "no refusal reached at all: the refusal obligation is vacuous"))
                row["verdict"] = "inconclusive"
        elif h.expect == "fail":
            if r.status == "failed":
                if h.finding:
                    e = C.known_match(prop, h.finding)
                    if e:
                        known_hit.append((h, h.finding, e))
                        row["verdict"] = "known-finding"
                    else:
                        # a witness harness for a finding that is not (or no longer) listed as open:
                        violations.append((h, r, [f for f in r.failed]))
                        row["verdict"] = "violation"
                else:
                    discharged += 1
                    row["verdict"] = "vacuity-twin-violated-as-expected"
            elif r.status == "success":
                if h.finding:
                    row["verdict"] = "finding-no-longer-reproduces"
                    discharged += 1
                    C.log(f"NOTE harness={h.full} finding '{h.finding}' does not reproduce on this tree")
                else:
                    inconclusive.append((h, "vacuity twin passed: harness family is vacuous"))
                    row["verdict"] = "inconclusive"
            else:
                inconclusive.append((h, r.status))
                row["verdict"] = "inconclusive"
        elif r.status == "success":
            if cov_bad:
                inconclusive.append((h, f"{cov_bad} cover(s) unreachable: vacuous"))
                row["verdict"] = "inconclusive"
            else:
                discharged += 1
                row["verdict"] = "holds-within-bounds"
        elif r.status == "failed" or (r.status == "unwind" and getattr(h, "hang", False)):
            real = [f for f in r.failed if "unwinding assertion" not in f["desc"] or getattr(h, "hang", False)]
            unknown = [f for f in real if not C.known_match(prop, fail_key(h, f))]
            for f in real:
                e = C.known_match(prop, fail_key(h, f))
                if e:
                    known_hit.append((h, fail_key(h, f), e))
            if unknown:
                violations.append((h, r, unknown))
                row["verdict"] = "violation-candidate"
                row["failed_checks"] = [fail_key(h, f) + f":{f['line']}" for f in unknown][:8]
            else:
                row["verdict"] = "known-finding"
        else:
            inconclusive.append((h, r.status))
            row["verdict"] = "inconclusive"
        rows.append(row)

    # ---- Engine M verdicts --------------------------------------------------------------------
    smt_viol = []
    for o in smt_obs:
        r = smt_results.get(o.name)
        if r is None:
            inconclusive.append((o, "not run"))
            continue
        solver_time += r.get("solver_time", 0)
        funcs.update(r.get("functions", []))
        row = {"engine": "mir-smt", "obligation": o.name, "required": o.required, "status": r["status"],
               "queries": r.get("queries", 0), "solvers": r.get("solvers", ""), "time_s": round(r.get("time", 0), 1),
               "bounds": o.bounds, "desc": o.desc}
        if r["status"] == "unsat":
            discharged += 1
            row["verdict"] = "holds-within-bounds"
        elif r["status"] == "sat":
            key = f"{o.name}|{r.get('where', '')}"
            e = C.known_match(o.prop, key)
            if e:
                known_hit.append((o, key, e))
                row["verdict"] = "known-finding"
            elif r.get("reproduced"):
                smt_viol.append((o, r))
                row["verdict"] = "violation"
                row["model"] = r.get("model")
            else:
                inconclusive.append((o, "model did not replay natively / could not be lifted: " + str(r.get("note", ""))))
                row["verdict"] = "inconclusive"
                row["model"] = r.get("model")
        else:
            inconclusive.append((o, r["status"] + " " + str(r.get("note", ""))))
            row["verdict"] = "inconclusive"
        rows.append(row)

    # ---- replay violation candidates ----------------------------------------------------------
    confirmed = []
    not_reproduced = []
    os.makedirs(os.path.join(C.REPLAYS, prop), exist_ok=True)
    if violations:
        # Replaying is expensive (a second CBMC run with trace generation per harness): candidates are replayed cheapest first,
        # four at a time, and replaying stops once MAX_CONFIRMED (default 1) counterexamples have reproduced natively -- one reproduced
        # counterexample already decides the exit code. Candidates that were not replayed are listed as such (never as VIOLATION).
        MAX_CONFIRMED = int(os.environ.get("VERIF_MAX_REPLAYS", "1"))
        violations.sort(key=lambda x: x[1].time)
        rlock = threading.Lock()
        pool = K.Pool(min(3, len(violations)))
        skipped = []

        def replay_one(h, r, unknown):
            rp = os.path.join(C.REPLAYS, prop, h.name + ".rs")
            hdr = "// failing checks:\n" + "".join(
                f"//   {f['desc']} @ {f['file']}:{f['line']} in {f['func']}\n" for f in unknown)
            if a.no_replay:
                with open(rp, "w") as f:
                    f.write(f"// harness {h.full}\n" + hdr)
                return ("confirmed", (h, rp, unknown, "not replayed (--no-replay)"))
            if h.kv.get("native"):
                # families whose counterexamples are reconstructed natively (Kani's concrete playback does not finish on them):
                # the native generator rebuilds the scenario with the repo's real prover and searches the obligation's small
                # symbolic space with the repo's real verifier
                ok, out = native_check(h.kv["native"])
                with open(rp, "w") as f:
                    f.write(f"// harness {h.full} ({h.desc})\n// native: {h.kv['native']}\n// replay: cd /verif && ./check --replay {rp}\n" + hdr + "// " + out.strip().replace("\n", "\n// ") + "\n")
                if ok:
                    return ("confirmed", (h, rp, unknown, "reproduced natively (wf-native " + h.kv["native"] + "): " + out.strip()[:200]))
                return ("not", (h, "native reconstruction found no witness: " + out.strip()[:200]))
            bt_first = K.boundary_candidates(h)
            if bt_first:
                # harnesses that declare their few small kani::any() draws: the cheap native boundary scan is tried BEFORE the playback
                # run (which repeats the verification with a full trace: minutes to hours, up to 40 GB)
                rep0, _ = K.native_replay(h, bt_first, timeout=600,
                                          fail_locs={(os.path.basename(f['file']), f['line']) for f in unknown}, strict=True)
                if rep0:
                    with open(rp, "w") as f:
                        f.write(f"// harness {h.full} ({h.desc})\n// replay: cd /verif && ./check --replay {rp}\n" + hdr + "\n" + bt_first)
                    return ("confirmed", (h, rp, unknown, "reproduced natively (boundary-candidate scan through kani::concrete_playback_run, dev profile)"))
            d = pool.acquire()
            try:
                tests, pout = K.concrete_playback(h, d, base_time=r.time)
            finally:
                pool.release(d)
            if not tests and getattr(h, "hang", False) and h.kv.get("hang_domain"):
                # Kani emits no playback for an exceeded unwinding bound: reconstruct candidates from the harness's
                # single small symbolic byte (confirmation only -- the solver decided that the bound is exceeded)
                tests = [f"#[test]\nfn kani_concrete_playback_manual_{v}() {{\n    let concrete_vals: Vec<Vec<u8>> = vec![vec![{v}]];\n"
                         f"    kani::concrete_playback_run(concrete_vals, {h.name});\n}}\n" for v in range(int(h.kv["hang_domain"]))]
            if not tests:
                bt = K.boundary_candidates(h)
                if bt:
                    tests = [bt]
                    strict_replay.add(h.full)   # candidates may also trip assumes: only a panic at a reported location counts
            if not tests:
                # unwinding / timeouts etc.: cannot produce a concrete input -> inconclusive, never VIOLATION
                why = ("concrete playback timed out" if "concrete playback timed out" in pout else
                       "concrete playback ran out of memory" if "memory allocation of" in pout else "no concrete playback produced")
                with open(os.path.join(C.BUILD, "logs", h.name + ".playback.log"), "w") as f:
                    f.write(pout[-200000:])
                return ("not", (h, why))
            rep = None
            used = None
            for t in tests[:8]:
                rep, rout = K.native_replay(h, t, timeout=(60 if getattr(h, 'hang', False) else 600),
                                            fail_locs={(os.path.basename(f['file']), f['line']) for f in unknown},
                                            strict=h.full in strict_replay)
                used = t
                if rep:
                    break
            with open(rp, "w") as f:
                f.write(f"// harness {h.full} ({h.desc})\n// replay: cd /verif && ./check --replay {rp}\n" + hdr + "\n" + (used or ""))
            if rep:
                return ("confirmed", (h, rp, unknown, "reproduced natively (cargo kani playback, dev profile)"))
            return ("not", (h, "counterexample did not reproduce natively" if rep is False else "replay could not be run"))

        wq = queue.Queue()
        for v in violations:
            wq.put(v)

        def rworker():
            while True:
                with rlock:
                    if len(confirmed) >= MAX_CONFIRMED:
                        return
                try:
                    h, r, unknown = wq.get_nowait()
                except queue.Empty:
                    return
                try:
                    kind, val = replay_one(h, r, unknown)
                except Exception as e:  # noqa
                    kind, val = "not", (h, "replay raised " + repr(e)[:200])
                with rlock:
                    (confirmed if kind == "confirmed" else not_reproduced).append(val)

        rts = [threading.Thread(target=rworker) for _ in range(min(3, len(violations)))]
        for t in rts:
            t.start()
        for t in rts:
            t.join()
        while True:
            try:
                h, r, unknown = wq.get_nowait()
            except queue.Empty:
                break
            skipped.append(h)
            for row in rows:
                if row.get("harness") == h.full:
                    row["verdict"] = "violation-candidate-not-replayed"
        if skipped:
            C.log(f"NOTE {len(skipped)} further failing obligation(s) not replayed (replaying stops after {MAX_CONFIRMED} reproduced counterexamples): "
                  + ", ".join(x.name for x in skipped[:12]))
            if not confirmed:
                for x in skipped:
                    not_reproduced.append((x, "not replayed"))
        pool.close()
    for o, r in smt_viol:
        rp = os.path.join(C.REPLAYS, prop, o.name + ".json")
        with open(rp, "w") as f:
            json.dump({"obligation": o.name, "model": r.get("model"), "replay": r.get("replay_out")}, f, indent=1)
        confirmed.append((o, rp, [], "reproduced natively (replay binary)"))

    for h, why in not_reproduced:
        inconclusive.append((h, why))
        for row in rows:
            if row.get("harness") == getattr(h, "full", None):
                row["verdict"] = "inconclusive-unreproduced"

    # ---- report ---------------------------------------------------------------------------------
    seen = set()
    for h, key, e in known_hit:
        if key in seen:
            continue
        seen.add(key)
        C.log(f"KNOWN-FINDING: property={prop} {e.get('what', key)} [{key}]")
    for h, why in inconclusive:
        nm = getattr(h, "full", getattr(h, "name", "?"))
        C.log(f"INCONCLUSIVE obligation={nm} required={getattr(h, 'required', True)} reason={why}")
    for h, rp, unknown, how in confirmed:
        for f in unknown[:5]:
            C.log(f"  failing check: {f['desc']} @ {f['file']}:{f['line']} in {f['func']}")
        C.log(f"VIOLATION property={prop} replay={rp}")

    total = len(hs) + len(smt_obs)
    nontrivial = sum(1 for row in rows if row.get("verdict") in ("holds-within-bounds", "vacuity-twin-violated-as-expected",
                                                                 "known-finding", "violation", "violation-candidate")
                     and (row.get("engine") != "kani" or row.get("covers_satisfied", 0) > 0 or row.get("expect") == "fail"
                          or row.get("verdict") != "holds-within-bounds"))
    cov = {
        "evaluations": total,
        "distinct_nontrivial": nontrivial,
        "rule": "one evaluation = one solver-decided obligation (a Kani harness = one CBMC/cadical run over the compiled /repo code with "
                "symbolic inputs, or one MIR->SMT query family decided by the z3/cvc5 portfolio). Non-trivial = decided (not timeout/oom) and, "
                "for Kani, its reachability cover(s) came back SATISFIED (or it is a vacuity twin that was violated as expected).",
        "samples": rows[:400],
        "obligations": total,
        "discharged": discharged,
        "undetermined": len(inconclusive),
        "known_findings_hit": sorted(seen),
        "functions_encoded": sorted(funcs),
        "solver_time_s": round(solver_time, 1),
        "solvers": "CBMC 6.11 + CaDiCaL (via Kani 0.68); z3 4.8.12, z3 5.1.0, cvc5 1.0 (Engine M)",
        "repo_fingerprint": C.repo_fingerprint(),
        "trusted_base": ["Kani 0.68 / CBMC 6.11 / CaDiCaL", "rustc MIR dump (nightly)", "z3, cvc5", "harness library kani/src/{toy,hashers,util}.rs",
                         "vf/mirsmt translator (validated per run against native execution)"],
        "exhaustive": False,
    }
    assumptions = [
        "bounded: every verdict holds only inside the bounds listed per sample (unwind depth, buffer sizes, enumerated shapes)",
        "alloc::fmt::format stubbed to return an empty String (messages are not the subject)",
        "CBMC's allocator never fails; memory proportionality is only checked as capacity-overflow panics",
        f"repo built with --cfg {C.GUARD} (hooks: merkle sorted-Vec map, ProverChannel re-export)",
    ]
    try:
        pm = importlib.import_module(f"vf.props.{prop.lower()}")
        assumptions += getattr(pm, "ASSUMPTIONS", [])
        cov.update(getattr(pm, "EXTRA_COVERAGE", {}))
    except ModuleNotFoundError:
        pass
    C.write_evidence(prop, tier, cov, assumptions, time.time() - t0, len(confirmed))
    C.log(f"SUMMARY property={prop} tier={tier} obligations={total} discharged={discharged} "
          f"known={len(seen)} inconclusive={len(inconclusive)} violations={len(confirmed)} wall={time.time() - t0:.0f}s")
    if confirmed:
        return 1
    if discharged == 0 and not seen:
        return 2
    return 0


def native_check(argstr):
    """run `wf-native <args>` built against the current tree; (found, output)"""
    from .gen import c05 as G5
    try:
        binp = G5.build_native()
    except Exception as e:  # noqa
        return False, "native generator does not build: " + str(e)[:300]
    try:
        p = subprocess.run([binp] + argstr.split(), capture_output=True, text=True, timeout=1800)
    except subprocess.TimeoutExpired:
        return False, "native reconstruction timed out"
    out = p.stdout + p.stderr[-500:]
    return ("FOUND" in p.stdout), out


def do_replay(path):
    """re-run a stored counterexample natively against the current /repo tree"""
    if path.endswith(".rs"):
        m0 = re.search(r"^// native: (.*)$", open(path).read(), re.M)
        if m0:
            ok, out = native_check(m0.group(1))
            print(out)
            print("REPRODUCED" if ok else "NOT REPRODUCED")
            return 1 if ok else 0
    if path.endswith(".json"):
        from .mirsmt import runner as MR
        return MR.replay_file(path)
    src = open(path).read()
    m = re.search(r"// harness (\S+)", src)
    if not m:
        print("not a replay file")
        return 2
    full = m.group(1)
    module, name = full.split("::")
    test = src[src.find("#[test]"):] if "#[test]" in src else ""
    if not test:
        print("replay file carries no concrete test (was written with --no-replay)")
        return 2
    gen_all()

    class H:
        pass
    h = H()
    h.module, h.name = module, name
    K.sync_lock()
    rep, out = K.native_replay(h, test)
    print(out[-3000:])
    print("REPRODUCED" if rep else "NOT REPRODUCED")
    return 1 if rep else 0


if __name__ == "__main__":
    sys.exit(main())
