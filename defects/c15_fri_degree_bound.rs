// Native demonstration of the FRI completeness defect found by harness c05_s5_honest_accepted: for a degree bound that is itself a
// power of two (here 1, i.e. polynomials with 2 coefficients) FriVerifier::new padded the DEGREE instead of the number of coefficients and
// derived a domain half the size of the prover's, so every honest proof was rejected. Drop into fri/tests/ and run
// `cargo test -p winter-fri --test c15_fri_degree_bound --offline`. Fails before the fix commit, passes after it.
use crypto::{hashers::Blake3_256, DefaultRandomCoin, Hasher, RandomCoin};
use math::{fft, fields::f128::BaseElement, FieldElement};
use utils::{Deserializable, Serializable, SliceReader};
use winter_fri::{
    DefaultProverChannel, DefaultVerifierChannel, FriOptions, FriProof, FriProver, FriVerifier,
    VerifierError,
};

type Blake3 = Blake3_256<BaseElement>;

/// Evaluates a polynomial with `trace_length` non-zero coefficients (degree trace_length - 1)
/// over a domain of size `trace_length * blowup`.
fn build_evaluations(trace_length: usize, blowup: usize) -> Vec<BaseElement> {
    let mut p = (1..=trace_length as u128).map(BaseElement::new).collect::<Vec<_>>();
    let domain_size = trace_length * blowup;
    p.resize(domain_size, BaseElement::ZERO);
    let twiddles = fft::get_twiddles::<BaseElement>(domain_size);
    fft::evaluate_poly(&mut p, &twiddles);
    p
}

fn prove_and_verify(
    trace_length: usize,
    blowup: usize,
    folding_factor: usize,
    remainder_max_degree: usize,
    num_queries: usize,
) -> Result<(), VerifierError> {
    let options = FriOptions::new(blowup, folding_factor, remainder_max_degree);
    let domain_size = trace_length * blowup;
    let evaluations = build_evaluations(trace_length, blowup);

    // honest prover
    let mut channel = DefaultProverChannel::<BaseElement, Blake3, DefaultRandomCoin<Blake3>>::new(
        domain_size,
        num_queries,
    );
    let mut prover = FriProver::new(options.clone());
    prover.build_layers(&mut channel, evaluations.clone());
    let positions = channel.draw_query_positions(0);
    let proof = prover.build_proof(&positions);
    let commitments: Vec<<Blake3 as Hasher>::Digest> = channel.layer_commitments().to_vec();

    // serialization round trip
    let mut bytes = Vec::new();
    proof.write_into(&mut bytes);
    let proof = FriProof::read_from(&mut SliceReader::new(&bytes)).unwrap();

    // verifier
    let mut vchannel = DefaultVerifierChannel::<BaseElement, Blake3>::new(
        proof,
        commitments,
        domain_size,
        folding_factor,
    )
    .unwrap();
    let mut coin = DefaultRandomCoin::<Blake3>::new(&[]);
    let verifier = FriVerifier::new(&mut vchannel, &mut coin, options, trace_length - 1)?;
    let queried = positions.iter().map(|&p| evaluations[p]).collect::<Vec<_>>();
    verifier.verify(&mut vchannel, &queried, &positions)
}

#[test]
fn honest_proofs_for_power_of_two_degree_bounds_are_accepted() {
    // (number of coefficients, blowup, folding factor, remainder max degree)
    for (n, blowup, folding, rmd) in [(2usize, 4usize, 2usize, 0usize), (2, 8, 2, 0), (2, 4, 2, 1)] {
        let result = prove_and_verify(n, blowup, folding, rmd, 4);
        assert!(result.is_ok(), "honest proof for {n} coefficients, blowup {blowup} rejected: {result:?}");
    }
}
