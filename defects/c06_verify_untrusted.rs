// Native demonstration of two defects of verify() on untrusted proofs (found by harnesses c06_queries_parse_count_0 and
// c06_verify_foreign_modulus_*): drop into winterfell/tests/ and run `cargo test -p winterfell --test defects_verify --offline`.
// Fails (panics inside verify) before the fix commits, passes after them. The toy computation and prover are the ones of the
// winterfell crate documentation.

use std::panic::{catch_unwind, AssertUnwindSafe};

use winterfell::{
    crypto::{hashers::Blake3_256, DefaultRandomCoin},
    math::{fields::f128::BaseElement, FieldElement, ToElements},
    matrix::ColMatrix,
    AcceptableOptions, Air, AirContext, Assertion, AuxRandElements,
    ConstraintCompositionCoefficients, DefaultConstraintEvaluator, DefaultTraceLde,
    Deserializable, EvaluationFrame, FieldExtension, Proof, ProofOptions, Prover, Serializable,
    StarkDomain, Trace, TraceInfo, TracePolyTable, TraceTable, TransitionConstraintDegree,
};

// COMPUTATION: state[i + 1] = state[i]^3 + 42
// ================================================================================================

fn build_do_work_trace(start: BaseElement, n: usize) -> TraceTable<BaseElement> {
    let mut trace = TraceTable::new(1, n);
    trace.fill(
        |state| state[0] = start,
        |_, state| state[0] = state[0].exp(3u32.into()) + BaseElement::new(42),
    );
    trace
}

#[derive(Clone)]
struct PublicInputs {
    start: BaseElement,
    result: BaseElement,
}

impl ToElements<BaseElement> for PublicInputs {
    fn to_elements(&self) -> Vec<BaseElement> {
        vec![self.start, self.result]
    }
}

struct WorkAir {
    context: AirContext<BaseElement>,
    start: BaseElement,
    result: BaseElement,
}

impl Air for WorkAir {
    type BaseField = BaseElement;
    type PublicInputs = PublicInputs;
    type GkrProof = ();
    type GkrVerifier = ();

    fn new(trace_info: TraceInfo, pub_inputs: PublicInputs, options: ProofOptions) -> Self {
        assert_eq!(1, trace_info.width());
        let degrees = vec![TransitionConstraintDegree::new(3)];
        WorkAir {
            context: AirContext::new(trace_info, degrees, 2, options),
            start: pub_inputs.start,
            result: pub_inputs.result,
        }
    }

    fn evaluate_transition<E: FieldElement + From<Self::BaseField>>(
        &self,
        frame: &EvaluationFrame<E>,
        _periodic_values: &[E],
        result: &mut [E],
    ) {
        let current_state = &frame.current()[0];
        let next_state = current_state.exp(3u32.into()) + E::from(42u32);
        result[0] = frame.next()[0] - next_state;
    }

    fn get_assertions(&self) -> Vec<Assertion<Self::BaseField>> {
        let last_step = self.trace_length() - 1;
        vec![Assertion::single(0, 0, self.start), Assertion::single(0, last_step, self.result)]
    }

    fn context(&self) -> &AirContext<Self::BaseField> {
        &self.context
    }
}

struct WorkProver {
    options: ProofOptions,
}

impl Prover for WorkProver {
    type BaseField = BaseElement;
    type Air = WorkAir;
    type Trace = TraceTable<Self::BaseField>;
    type HashFn = Blake3_256<Self::BaseField>;
    type RandomCoin = DefaultRandomCoin<Self::HashFn>;
    type TraceLde<E: FieldElement<BaseField = Self::BaseField>> = DefaultTraceLde<E, Self::HashFn>;
    type ConstraintEvaluator<'a, E: FieldElement<BaseField = Self::BaseField>> =
        DefaultConstraintEvaluator<'a, Self::Air, E>;

    fn get_pub_inputs(&self, trace: &Self::Trace) -> PublicInputs {
        let last_step = trace.length() - 1;
        PublicInputs {
            start: trace.get(0, 0),
            result: trace.get(0, last_step),
        }
    }

    fn options(&self) -> &ProofOptions {
        &self.options
    }

    fn new_trace_lde<E: FieldElement<BaseField = Self::BaseField>>(
        &self,
        trace_info: &TraceInfo,
        main_trace: &ColMatrix<Self::BaseField>,
        domain: &StarkDomain<Self::BaseField>,
    ) -> (Self::TraceLde<E>, TracePolyTable<E>) {
        DefaultTraceLde::new(trace_info, main_trace, domain)
    }

    fn new_evaluator<'a, E: FieldElement<BaseField = Self::BaseField>>(
        &self,
        air: &'a Self::Air,
        aux_rand_elements: Option<AuxRandElements<E>>,
        composition_coefficients: ConstraintCompositionCoefficients<E>,
    ) -> Self::ConstraintEvaluator<'a, E> {
        DefaultConstraintEvaluator::new(air, aux_rand_elements, composition_coefficients)
    }
}

// HELPERS
// ================================================================================================

type Hasher = Blake3_256<BaseElement>;

fn verify_bytes(
    proof_bytes: &[u8],
    pub_inputs: &PublicInputs,
    options: &ProofOptions,
) -> std::thread::Result<Result<(), String>> {
    let acceptable = AcceptableOptions::OptionSet(vec![options.clone()]);
    catch_unwind(AssertUnwindSafe(|| {
        let proof = Proof::from_bytes(proof_bytes).map_err(|err| err.to_string())?;
        winterfell::verify::<WorkAir, Hasher, DefaultRandomCoin<Hasher>>(
            proof,
            pub_inputs.clone(),
            &acceptable,
        )
        .map_err(|err| err.to_string())
    }))
}

fn read_u32(bytes: &[u8], pos: usize) -> usize {
    u32::from_le_bytes(bytes[pos..pos + 4].try_into().unwrap()) as usize
}

/// Returns the serialized FRI proof with only the first `keep` layers retained. The layout is:
/// number of layers (1 byte), then for every layer (values: u32 length + bytes, paths: u32 length +
/// bytes), then the remainder (u16 length + bytes) and the partition count exponent (1 byte).
fn truncate_fri_layers(fri_bytes: &[u8], keep: usize) -> Vec<u8> {
    let num_layers = fri_bytes[0] as usize;
    assert!(keep <= num_layers);
    let mut layer_ends = vec![1];
    let mut pos = 1;
    for _ in 0..num_layers {
        pos += 4 + read_u32(fri_bytes, pos); // query values
        pos += 4 + read_u32(fri_bytes, pos); // Merkle paths
        layer_ends.push(pos);
    }
    let mut result = vec![keep as u8];
    result.extend_from_slice(&fri_bytes[1..layer_ends[keep]]);
    result.extend_from_slice(&fri_bytes[pos..]);
    result
}


fn honest() -> (Vec<u8>, PublicInputs, ProofOptions) {
    let start = BaseElement::new(3);
    let n = 64;
    let trace = build_do_work_trace(start, n);
    let pub_inputs = PublicInputs { start, result: trace.get(0, n - 1) };
    let options = ProofOptions::new(8, 4, 0, FieldExtension::None, 4, 7);
    let proof = WorkProver { options: options.clone() }.prove(trace).unwrap();
    let bytes = proof.to_bytes();
    assert_eq!(verify_bytes(&bytes, &pub_inputs, &options).expect("honest panicked"), Ok(()));
    (bytes, pub_inputs, options)
}

#[test]
fn zero_unique_queries_is_an_error_not_a_panic() {
    let (mut bytes, pi, options) = honest();
    let off = 6 + 1 + 16 + options.to_bytes().len();
    assert!(bytes[off] > 0 && bytes[off] <= 8, "offset of num_unique_queries: {}", bytes[off]);
    bytes[off] = 0;
    let r = verify_bytes(&bytes, &pi, &options);
    assert!(r.is_ok(), "verify panicked on num_unique_queries = 0");
    assert!(r.unwrap().is_err());
}

#[test]
fn long_modulus_is_an_error_not_a_panic() {
    let (bytes, pi, options) = honest();
    assert_eq!(bytes[6], 16);
    let mut t = bytes[..6].to_vec();
    t.push(32);
    t.extend_from_slice(&bytes[7..23]);
    t.extend_from_slice(&[0u8; 16]);
    t.extend_from_slice(&bytes[23..]);
    let r = verify_bytes(&t, &pi, &options);
    assert!(r.is_ok(), "verify panicked on a 32-byte field modulus");
    assert!(r.unwrap().is_err());
}

#[test]
fn tiny_modulus_is_an_error_not_a_panic() {
    let (bytes, pi, options) = honest();
    let mut t = bytes[..6].to_vec();
    t.push(1);
    t.push(3);
    t.extend_from_slice(&bytes[23..]);
    let r = verify_bytes(&t, &pi, &options);
    assert!(r.is_ok(), "verify panicked on a 1-byte field modulus (security estimate underflow)");
    assert!(r.unwrap().is_err());
}
