//! wf-native: produces concrete data for Kani harness families by running the repo's real code natively at
//! the harness library's toy instantiation (F_257, PairHash128, CtrCoin).
//!   wf-native fri <name> <blowup> <folding> <rem_max_degree> <num_coeffs> <positions,csv> <seed>
//! prints a Rust module `pub mod <name> { .. }` with the honest proof and the oracles the harnesses need.
#[path = "../../kani/src/toy.rs"]
pub mod toy;
#[path = "../../kani/src/hashers.rs"]
pub mod hashers;
#[path = "../../kani/src/coins.rs"]
pub mod coins;

use coins::CtrCoin;
use crypto::RandomCoin;
use fri::{DefaultProverChannel, DefaultVerifierChannel, FriOptions, FriProof, FriProver, FriVerifier};
use hashers::{PairHash128 as PH, PD128};
use math::{fft, polynom, FieldElement, StarkField};
use toy::T;
use utils::{Deserializable, Serializable, SliceReader};

fn lcg(s: &mut u64) -> u64 {
    *s = s.wrapping_mul(6364136223846793005).wrapping_add(1442695040888963407);
    *s >> 33
}

fn pow(b: T, e: u64) -> T {
    let mut r = T::ONE;
    for _ in 0..e { r = r * b; }
    r
}

fn horner(p: &[T], x: T) -> T { p.iter().rev().fold(T::ZERO, |a, &c| a * x + c) }

fn fri(args: &[String]) {
    let name = &args[0];
    let blowup: usize = args[1].parse().unwrap();
    let folding: usize = args[2].parse().unwrap();
    let remdeg: usize = args[3].parse().unwrap();
    let ncoef: usize = args[4].parse().unwrap();
    let positions: Vec<usize> = args[5].split(',').map(|x| x.parse().unwrap()).collect();
    let mut seed: u64 = args[6].parse().unwrap();
    let n = ncoef * blowup;
    let options = FriOptions::new(blowup, folding, remdeg);
    let offset: T = options.domain_offset();
    let g = T::get_root_of_unity(n.ilog2());
    let mut poly: Vec<T> = (0..ncoef).map(|_| T::new((lcg(&mut seed) % 257) as u32)).collect();
    if poly[ncoef - 1] == T::ZERO { poly[ncoef - 1] = T::ONE; } // degree exactly the bound
    let evals: Vec<T> = (0..n).map(|i| horner(&poly, offset * pow(g, i as u64))).collect();

    let mut channel = DefaultProverChannel::<T, PH, CtrCoin>::new(n, positions.len());
    let mut prover = FriProver::<T, T, _, PH>::new(options.clone());
    prover.build_layers(&mut channel, evals.clone());
    let proof = prover.build_proof(&positions);
    let bytes = proof.to_bytes();
    let commits: Vec<u128> = channel.layer_commitments().iter().map(|d| d.0).collect();
    let queried: Vec<u16> = positions.iter().map(|&p| evals[p].0).collect();
    let nlayers = proof.num_layers();

    // honest acceptance, natively, by the real verifier
    let accept = {
        let p2 = FriProof::read_from(&mut SliceReader::new(&bytes)).unwrap();
        let mut ch = DefaultVerifierChannel::<T, PH>::new(p2, commits.iter().map(|&c| PD128(c)).collect(), n, folding).unwrap();
        let mut coin = CtrCoin::new(&[]);
        let v = FriVerifier::new(&mut ch, &mut coin, options.clone(), ncoef - 1).unwrap();
        let q: Vec<T> = queried.iter().map(|&v| T(v)).collect();
        v.verify(&mut ch, &q, &positions).is_ok()
    };

    // honest components as parsed from the proof by the real parsers
    let rem: Vec<T> = proof.parse_remainder::<T>().unwrap();
    let (lq, _lp) = FriProof::read_from(&mut SliceReader::new(&bytes)).unwrap().parse_layers::<PH, T>(n, folding).unwrap();

    // layout of the queried cells per layer (reference re-statement of fold_positions / get_query_values)
    let mut pos = positions.clone();
    let mut dsize = n;
    let mut slots: Vec<Vec<usize>> = Vec::new(); // per layer: flat index into the layer's value vector for each (distinct) position
    for _ in 0..nlayers {
        let rowlen = dsize / folding;
        let mut folded: Vec<usize> = Vec::new();
        for p in pos.iter() { let f = p % rowlen; if !folded.contains(&f) { folded.push(f); } }
        let s: Vec<usize> = pos.iter().map(|p| folded.iter().position(|&f| f == p % rowlen).unwrap() * folding + p / rowlen).collect();
        slots.push(s);
        pos = folded;
        dsize = rowlen;
    }
    // last-layer points and the values the remainder has to take there
    let glast = pow(g, (n / dsize) as u64);
    let xs: Vec<T> = pos.iter().map(|&p| offset * pow(glast, p as u64)).collect();
    let agree: Vec<T> = xs.iter().map(|&x| horner(&rem, x)).collect();
    let mut maxdeg1 = ncoef;
    for _ in 0..nlayers { maxdeg1 /= folding; }

    // the same proof with a copy of its last layer appended as an additional layer (layer count byte incremented): a proof that
    // differs in decoded content only by payload the verifier never consumes
    let mut extra: Vec<u8> = Vec::new();
    let (mut ev_off, mut ev_len, mut ep_off, mut ep_len) = (0usize, 0usize, 0usize, 0usize);
    let mut extra_parses = false;
    let mut extra_accept = false;
    if nlayers > 0 {
        let rd = |o: usize| u32::from_le_bytes([bytes[o], bytes[o + 1], bytes[o + 2], bytes[o + 3]]) as usize;
        let mut o = 1usize;
        let mut start = 0usize;
        for _ in 0..nlayers { start = o; let vl = rd(o); o += 4 + vl; let pl = rd(o); o += 4 + pl; }
        let end = o;
        extra.extend_from_slice(&bytes[..end]);
        let base = extra.len();
        extra.extend_from_slice(&bytes[start..end]);
        extra.extend_from_slice(&bytes[end..]);
        extra[0] += 1;
        let vl = rd(start);
        ev_off = base + 4; ev_len = vl;
        ep_off = base + 4 + vl + 4; ep_len = rd(start + 4 + vl);
        if let Ok(p2) = FriProof::read_from(&mut SliceReader::new(&extra)) {
            if let Ok(mut ch) = DefaultVerifierChannel::<T, PH>::new(p2, commits.iter().map(|&c| PD128(c)).collect(), n, folding) {
                extra_parses = true;
                let mut coin = CtrCoin::new(&[]);
                if let Ok(v) = FriVerifier::new(&mut ch, &mut coin, options.clone(), ncoef - 1) {
                    let q: Vec<T> = queried.iter().map(|&v| T(v)).collect();
                    extra_accept = v.verify(&mut ch, &q, &positions).is_ok();
                }
            }
        }
    }

    println!("pub mod {name} {{");
    println!("    pub const PROOF_EXTRA: [u8; {}] = {:?};", extra.len(), extra);
    println!("    pub const EXTRA_VALUES_OFF: usize = {ev_off}; pub const EXTRA_VALUES_LEN: usize = {ev_len}; pub const EXTRA_PATHS_OFF: usize = {ep_off}; pub const EXTRA_PATHS_LEN: usize = {ep_len};");
    println!("    // natively: the channel parses the extended proof: {extra_parses}; the verifier accepts it: {extra_accept}");
    println!("    // blowup {blowup} folding {folding} remainder_max_degree {remdeg} coefficients {ncoef} domain {n} layers {nlayers}; poly {:?}", poly);
    println!("    pub const BLOWUP: usize = {blowup}; pub const FOLDING: usize = {folding}; pub const REMDEG: usize = {remdeg};");
    println!("    pub const DOMAIN: usize = {n}; pub const MAX_DEGREE: usize = {}; pub const NLAYERS: usize = {nlayers};", ncoef - 1);
    println!("    pub const HONEST_ACCEPTED_NATIVELY: bool = {accept};");
    println!("    pub const PROOF: [u8; {}] = {:?};", bytes.len(), bytes);
    println!("    pub const COMMITS: [u128; {}] = {:?};", commits.len(), commits);
    println!("    pub const POSITIONS: [usize; {}] = {:?};", positions.len(), positions);
    println!("    pub const QUERIED: [u16; {}] = {:?};", queried.len(), queried);
    println!("    pub const REM: [u16; {}] = {:?};", rem.len(), rem.iter().map(|x| x.0).collect::<Vec<_>>());
    println!("    pub const REM_BOUND: usize = {maxdeg1};");
    println!("    pub const LAST_XS: [u16; {}] = {:?};", xs.len(), xs.iter().map(|x| x.0).collect::<Vec<_>>());
    println!("    pub const LAST_AGREE: [u16; {}] = {:?};", agree.len(), agree.iter().map(|x| x.0).collect::<Vec<_>>());
    for (l, v) in lq.iter().enumerate() {
        println!("    pub const LAYER{l}_VALUES: [u16; {}] = {:?};", v.len(), v.iter().map(|x| x.0).collect::<Vec<_>>());
        println!("    pub const LAYER{l}_SLOTS: [usize; {}] = {:?};", slots[l].len(), slots[l]);
    }
    println!("}}");
}

// ---------------------------------------------------------------------------------------------------------------------
// native reconstruction of counterexamples of the FRI-verifier harness family (Kani's concrete playback does not finish on
// runs of this size): the same scenario is rebuilt and the small symbolic space of the obligation is searched natively
// (honest values with up to two cells replaced by every field element). Prints `FOUND <description>` or `NONE`.
struct NWrap { inner: DefaultVerifierChannel<T, PH>, rem: Option<Vec<T>>, commits: Option<Vec<PD128>>, layer: usize, layer_vals: Option<Vec<T>>, cur: usize, parts: Option<usize> }
impl fri::VerifierChannel<T> for NWrap {
    type Hasher = PH;
    fn read_fri_num_partitions(&self) -> usize { match self.parts { Some(x) => x, None => self.inner.read_fri_num_partitions() } }
    fn read_fri_layer_commitments(&mut self) -> Vec<PD128> { let c = self.inner.read_fri_layer_commitments(); match self.commits.take() { Some(x) => x, None => c } }
    fn take_next_fri_layer_proof(&mut self) -> crypto::BatchMerkleProof<PH> { self.inner.take_next_fri_layer_proof() }
    fn take_next_fri_layer_queries(&mut self) -> Vec<T> {
        let v = self.inner.take_next_fri_layer_queries();
        let l = self.cur; self.cur += 1;
        if l == self.layer { match self.layer_vals.take() { Some(x) => x, None => v } } else { v }
    }
    fn take_fri_remainder(&mut self) -> Vec<T> { match &self.rem { Some(x) => x.clone(), None => self.inner.take_fri_remainder() } }
}

/// all vectors that differ from `base` in at most two cells
fn deviations(base: &[T]) -> Vec<Vec<T>> {
    let mut out = vec![base.to_vec()];
    for i in 0..base.len() {
        for v in 0..257u16 { let mut x = base.to_vec(); x[i] = T(v); out.push(x); }
    }
    if base.len() <= 4 {
        for i in 0..base.len() { for j in (i + 1)..base.len() {
            for v in 0..257u16 { for w in 0..257u16 { let mut x = base.to_vec(); x[i] = T(v); x[j] = T(w); out.push(x); } }
        } }
    }
    out
}

fn fri_check(args: &[String]) {
    let kind = args[0].as_str();
    let blowup: usize = args[1].parse().unwrap();
    let folding: usize = args[2].parse().unwrap();
    let remdeg: usize = args[3].parse().unwrap();
    let ncoef: usize = args[4].parse().unwrap();
    let positions: Vec<usize> = args[5].split(',').map(|x| x.parse().unwrap()).collect();
    let mut seed: u64 = args[6].parse().unwrap();
    let n = ncoef * blowup;
    let options = FriOptions::new(blowup, folding, remdeg);
    let offset: T = options.domain_offset();
    let g = T::get_root_of_unity(n.ilog2());
    let mut poly: Vec<T> = (0..ncoef).map(|_| T::new((lcg(&mut seed) % 257) as u32)).collect();
    if poly[ncoef - 1] == T::ZERO { poly[ncoef - 1] = T::ONE; }
    let evals: Vec<T> = (0..n).map(|i| horner(&poly, offset * pow(g, i as u64))).collect();
    let mut channel = DefaultProverChannel::<T, PH, CtrCoin>::new(n, positions.len());
    let mut prover = FriProver::<T, T, _, PH>::new(options.clone());
    prover.build_layers(&mut channel, evals.clone());
    let proof = prover.build_proof(&positions);
    let bytes = proof.to_bytes();
    let commits: Vec<PD128> = channel.layer_commitments().to_vec();
    let queried: Vec<T> = positions.iter().map(|&p| evals[p]).collect();
    let nlayers = proof.num_layers();
    let rem: Vec<T> = proof.parse_remainder::<T>().unwrap();
    let (lq, _) = FriProof::read_from(&mut SliceReader::new(&bytes)).unwrap().parse_layers::<PH, T>(n, folding).unwrap();

    let parts_o: std::cell::Cell<Option<usize>> = std::cell::Cell::new(None);
    let run = |pbytes: &[u8], rem_o: Option<Vec<T>>, commits_o: Option<Vec<PD128>>, ev: &[T], layer_o: Option<(usize, Vec<T>)>| -> bool {
        let p2 = match FriProof::read_from(&mut SliceReader::new(pbytes)) { Ok(p) => p, Err(_) => return false };
        let inner = match DefaultVerifierChannel::<T, PH>::new(p2, commits.clone(), n, folding) { Ok(c) => c, Err(_) => return false };
        let (layer, layer_vals) = match layer_o { Some((l, v)) => (l, Some(v)), None => (usize::MAX, None) };
        let mut ch = NWrap { inner, rem: rem_o, commits: commits_o, layer, layer_vals, cur: 0, parts: parts_o.get() };
        let mut coin = CtrCoin::new(&[]);
        let v = match FriVerifier::new(&mut ch, &mut coin, options.clone(), ncoef - 1) { Ok(v) => v, Err(_) => return false };
        v.verify(&mut ch, ev, &positions).is_ok()
    };
    // layout and last-layer oracle as in `fri`
    let mut pos = positions.clone();
    let mut dsize = n;
    let mut slots: Vec<Vec<usize>> = Vec::new();
    for _ in 0..nlayers {
        let rowlen = dsize / folding;
        let mut folded: Vec<usize> = Vec::new();
        for p in pos.iter() { let f = p % rowlen; if !folded.contains(&f) { folded.push(f); } }
        slots.push(pos.iter().map(|p| folded.iter().position(|&f| f == p % rowlen).unwrap() * folding + p / rowlen).collect());
        pos = folded;
        dsize = rowlen;
    }
    let glast = pow(g, (n / dsize) as u64);
    let xs: Vec<T> = pos.iter().map(|&p| offset * pow(glast, p as u64)).collect();
    let agree: Vec<T> = xs.iter().map(|&x| horner(&rem, x)).collect();
    let mut bound = ncoef;
    for _ in 0..nlayers { bound /= folding; }

    if kind == "honest" {
        if !run(&bytes, None, None, &queried, None) { println!("FOUND the honest proof is rejected"); } else { println!("NONE"); }
    } else if kind == "remainder_bound" {
        for c in deviations(&rem) { if c != rem && run(&bytes, Some(c.clone()), None, &queried, None) { println!("FOUND accepted remainder {:?} != committed {:?}", c, rem); return; } }
        println!("NONE");
    } else if kind == "evaluations_bound" {
        for c in deviations(&queried) { if c != queried && run(&bytes, None, None, &c, None) { println!("FOUND accepted evaluations {:?} != committed {:?}", c, queried); return; } }
        println!("NONE");
    } else if let Some(l) = kind.strip_prefix("layer") {
        let l: usize = l.parse().unwrap();
        for c in deviations(&lq[l]) {
            if run(&bytes, None, None, &queried, Some((l, c.clone()))) && slots[l].iter().any(|&s| c[s] != lq[l][s]) {
                println!("FOUND accepted layer {} values {:?}, honest {:?}, queried slots {:?}", l, c, lq[l], slots[l]); return;
            }
        }
        println!("NONE");
    } else if let Some(len) = kind.strip_prefix("remainder_len") {
        let len: usize = len.parse().unwrap();
        let mut base: Vec<T> = rem.clone();
        base.resize(len, T::ZERO);
        let mut cands = deviations(&base);
        let mut s2 = 12345u64;
        for _ in 0..200000 { cands.push((0..len).map(|_| T::new((lcg(&mut s2) % 257) as u32)).collect()); }
        for c in cands {
            let mut cm = commits.clone();
            let last = cm.len() - 1;
            cm[last] = <PH as crypto::ElementHasher>::hash_elements(&c);
            let ok = run(&bytes, Some(c.clone()), Some(cm), &queried, None);
            let ag = xs.iter().zip(agree.iter()).all(|(&x, &a)| horner(&c, x) == a);
            if ok != (len <= bound && ag) { println!("FOUND remainder {:?}: accepted = {}, within bound = {}, agrees with folded evaluations = {}", c, ok, len <= bound, ag); return; }
        }
        println!("NONE");
    } else if let Some(k) = kind.strip_prefix("partitions") {
        // the channel reports 2^k partitions for the honest single-partition proof: accepted only where the claimed layout coincides
        let k: u32 = k.parse().unwrap();
        let parts = 1usize << k;
        parts_o.set(Some(parts));
        let target = n / folding;
        let coincide = positions.iter().all(|&p0| { let p = p0 % target; (p % parts) * (target / parts) + p / parts == p });
        let ok = run(&bytes, None, None, &queried, None);
        if ok != coincide { println!("FOUND a proof claiming 2^{} partitions: accepted = {}, layout coincides on the queried positions = {}", k, ok, coincide); } else { println!("NONE"); }
    } else if kind == "extra" {
        // honest proof with a copy of the last layer appended
        let rd = |o: usize| u32::from_le_bytes([bytes[o], bytes[o + 1], bytes[o + 2], bytes[o + 3]]) as usize;
        let mut o = 1usize; let mut start = 0usize;
        for _ in 0..nlayers { start = o; let vl = rd(o); o += 4 + vl; let pl = rd(o); o += 4 + pl; }
        let mut extra: Vec<u8> = bytes[..o].to_vec();
        extra.extend_from_slice(&bytes[start..o]);
        extra.extend_from_slice(&bytes[o..]);
        extra[0] += 1;
        if run(&extra, None, None, &queried, None) { println!("FOUND the proof with an additional (never consumed) FRI layer is accepted"); } else { println!("NONE"); }
    } else {
        eprintln!("unknown kind {kind}"); std::process::exit(2);
    }
}

fn main() {
    let args: Vec<String> = std::env::args().skip(1).collect();
    match args.first().map(|s| s.as_str()) {
        Some("fri") => fri(&args[1..]),
        Some("fri-check") => fri_check(&args[1..]),
        _ => { eprintln!("usage: wf-native fri <name> <blowup> <folding> <remdeg> <ncoef> <positions> <seed>"); std::process::exit(2) }
    }
}
